#!/usr/bin/env python3
"""
tools/seed_regress.py [--only C01,C02] [--jobs 2] [--tier quick] [--match w4]

Regression over the seeded property-breaking changes kept under /verif/seeded/: every patch is applied to a fresh scratch
worktree of /repo's HEAD (never /repo itself), the check of its own property is run against that worktree (VERIF_REPO) and must
exit 1 with a VIOLATION line.  Prints one line per seeded change and a summary; exits 1 if any change is no longer reported.
The worktree is removed after each run.  Nothing under /verif/evidence is touched (mutant runs write <id>.mutant.json, deleted).
"""
import argparse
import json
import os
import subprocess
import sys
import time
from concurrent.futures import ThreadPoolExecutor
from pathlib import Path

VERIF = Path(__file__).resolve().parent.parent


def sh(cmd, cwd=None, env=None, timeout=7200):
    p = subprocess.run(cmd, shell=True, cwd=cwd, env=env, capture_output=True, text=True, timeout=timeout)
    return p.returncode, p.stdout + p.stderr


def one(d: Path, tier: str, jobs_per_check: int):
    meta = json.loads((d / "meta.json").read_text())
    pid = meta["property"]
    wt = Path("/dev/shm/vfy-regr-%d-%s" % (os.getpid(), d.name))
    rc, o = sh("git -C /repo worktree add -q --detach %s HEAD" % wt)
    if rc != 0:
        return d.name, pid, "worktree-failed", 0.0, o[-200:]
    try:
        rc, o = sh("git apply %s" % (d / "patch.diff"), cwd=wt)
        if rc != 0:
            # the tree has moved on since the change was written (fix commits): merge it, or report it as obsolete
            rc, o = sh("git apply -3 %s" % (d / "patch.diff"), cwd=wt)
        if rc != 0:
            return d.name, pid, "obsolete-no-longer-applies", 0.0, "written against %s; the code it edits has been rewritten since" % meta.get("repo_head")
        t0 = time.time()
        env = dict(os.environ, VERIF_REPO=str(wt), VERIF_JOBS=str(jobs_per_check))
        rc, o = sh("./check %s --tier %s" % (pid, tier), cwd=VERIF, env=env)
        lines = [l for l in o.splitlines() if l.startswith("VIOLATION")]
        verdict = "caught" if (rc == 1 and lines) else ("harness-error" if rc == 2 else "MISSED")
        return d.name, pid, verdict, time.time() - t0, (lines[0].split("# ", 1)[-1][:110] if lines else o.strip().splitlines()[-1][:110])
    finally:
        sh("git -C /repo worktree remove --force %s" % wt)


def main():
    ap = argparse.ArgumentParser()
    ap.add_argument("--only", default="")
    ap.add_argument("--match", default="")
    ap.add_argument("--jobs", type=int, default=2)
    ap.add_argument("--tier", default="quick")
    a = ap.parse_args()
    only = set(x for x in a.only.split(",") if x)
    dirs = sorted(d for d in (VERIF / "seeded").iterdir() if (d / "meta.json").exists())
    dirs = [d for d in dirs if (not only or d.name.split("-")[0] in only) and a.match in d.name]
    per = max(2, 16 // a.jobs)
    bad = 0
    with ThreadPoolExecutor(a.jobs) as ex:
        for name, pid, verdict, dt, info in ex.map(lambda d: one(d, a.tier, per), dirs):
            print("%-12s %-4s %-22s %6.1fs  %s" % (name, pid, verdict, dt, info), flush=True)
            bad += verdict not in ("caught", "obsolete-no-longer-applies")
    for f in (VERIF / "evidence").glob("*.mutant.json"):
        f.unlink()
    print("seeded changes: %d, not reported: %d" % (len(dirs), bad))
    return 1 if bad else 0


if __name__ == "__main__":
    sys.exit(main())
