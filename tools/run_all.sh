#!/bin/bash
# tools/run_all.sh [quick|thorough] : run every registered check once, print one line per check
tier="${1:-quick}"
cd "$(dirname "$0")/.."
ids=$(python3 -c "import json;print(' '.join(c['property_id'] for c in json.load(open('MANIFEST.json'))['checks']))")
rc=0
for id in $ids; do
  out=$(./check "$id" --tier "$tier" 2>&1); r=$?
  echo "$out" | grep -E "^(VIOLATION|KNOWN-FINDING|HARNESS|VACUOUS)" | cut -c1-220 | head -5
  echo "$out" | grep -E "^$id " | tail -1
  [ $r = 0 ] || { echo "!! $id exit=$r"; rc=1; }
done
exit $rc
