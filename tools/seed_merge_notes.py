#!/usr/bin/env python3
"""Merges tools/seed_notes.json (what each seeded change does / needs in order to manifest) into seeded/<id>/meta.json."""
import json
from pathlib import Path

V = Path(__file__).resolve().parent.parent
notes = json.loads((V / "tools" / "seed_notes.json").read_text())
for d in sorted((V / "seeded").iterdir()):
    m = d / "meta.json"
    if m.exists() and d.name in notes:
        meta = json.loads(m.read_text())
        meta.update(notes[d.name])
        m.write_text(json.dumps(meta, indent=1) + "\n")
print("merged", len(notes))
