#!/bin/bash
# tools/mutant.sh <patch.diff> [--tests] <ID>...   : apply a patch to a scratch worktree of /repo (never to /repo itself),
# optionally run the pinned test suite there, run the given checks against it (VERIF_REPO), remove the worktree.
set -u
patch="$(readlink -f "$1")"; shift
run_tests=0; if [ "${1:-}" = "--tests" ]; then run_tests=1; shift; fi
wt="/dev/shm/vfy-mut-$$"
git -C /repo worktree add -q --detach "$wt" HEAD || exit 2
trap 'git -C /repo worktree remove --force "$wt" >/dev/null 2>&1; rm -f /verif/evidence/*.mutant.json' EXIT
git -C "$wt" apply "$patch" 2>/dev/null || git -C "$wt" apply -3 "$patch" >/dev/null 2>&1 || { echo "PATCH DOES NOT APPLY"; exit 2; }
if [ $run_tests = 1 ]; then
  (cd "$wt" && /venv/bin/python -m pytest -q -p no:cacheprovider --timeout=900 -x 2>&1 | tail -2)
fi
rc=0
for id in "$@"; do
  out="$(cd /verif && VERIF_REPO="$wt" ./check "$id" --tier "${VERIF_TIER:-quick}" 2>&1)"; r=$?
  echo "$out" | grep -E "^(VIOLATION|KNOWN-FINDING|HARNESS|VACUOUS)" | head -4
  echo "$out" | tail -1
  echo "== $id exit=$r"
  [ $r = 1 ] || rc=1
done
exit $rc
