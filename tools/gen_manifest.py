#!/usr/bin/env python3
"""Regenerates /verif/MANIFEST.json from the table below (kept next to the code so it cannot go stale silently)."""
import json
import sys
from pathlib import Path

VERIF = Path(__file__).resolve().parent.parent
sys.path.insert(0, str(VERIF))
from tools.manifest_table import CHECKS, NOT_APPLICABLE  # noqa: E402

BASELINE = "cd /repo && /venv/bin/python -m pytest -ra -q -p no:cacheprovider --timeout=900 --continue-on-collection-errors"

m = {
    "version": 1,
    "setup_cmd": "cd /verif && /venv/bin/python -m compileall -q mc tools >/dev/null && ./tools/selftest.sh",
    "hooks": {
        "guard": "PYDSDL_VERIF",
        "enable": "no source hooks exist: every check drives the public API or replaces module-global names (set, open, Path.rglob) from the harness; the guard name is reserved and unused",
        "baseline_off_cmd": BASELINE,
        "source_commits": [],
        "add_only": True,
    },
    "engines": [
        {
            "name": "mc",
            "path": "/verif/mc",
            "serves_properties": [c["property_id"] for c in CHECKS],
            "kind_free_text": "hand-written explicit-state / bounded-exhaustive explorer for the real pydsdl implementation: "
            "space x reference model, history BFS, deviation-bounded schedule DFS (16 worker processes)",
        }
    ],
    "checks": [],
    "not_applicable": NOT_APPLICABLE,
    "notes": "All checks import pydsdl from /repo's working tree (editable install + sys.path pin, verified at start-up). "
    "VERIF_SEED only rotates shard order (and picks the hash seeds of C10's supplementary pass); the covered space is a "
    "function of the tier. Known findings: /verif/known_findings.txt.",
}
for c in CHECKS:
    pid = c["property_id"]
    m["checks"].append(
        {
            "property_id": pid,
            "quick_cmd": "./check %s --tier quick" % pid,
            "thorough_cmd": "./check %s --tier thorough" % pid,
            "evidence_file": "/verif/evidence/%s.json" % pid,
            "replay_cmd_template": "./check %s --replay {path}" % pid,
            "engine": "mc",
            "level_claimed": {"category": c["level"], "text": c["text"], "design_ref": c["design_ref"]},
            "level_note": c["note"],
            "technique": c["technique"],
        }
    )
(VERIF / "MANIFEST.json").write_text(json.dumps(m, indent=1) + "\n")
print("MANIFEST.json: %d checks, %d not_applicable" % (len(m["checks"]), len(NOT_APPLICABLE)))
