#!/usr/bin/env python3
"""Schema validation of MANIFEST.json and evidence/*.json (jsonschema from the tooling venv when available)."""
import glob
import json
import os
import sys

here = os.path.dirname(os.path.dirname(os.path.abspath(__file__)))
try:
    import jsonschema
except ImportError:  # structural fallback: the files must at least parse and carry the required keys
    jsonschema = None


def check(path, schema_path, required):
    doc = json.load(open(path))
    if jsonschema is not None and os.path.exists(schema_path):
        jsonschema.validate(doc, json.load(open(schema_path)))
    else:
        for k in required:
            assert k in doc, "%s: missing %s" % (path, k)
    return doc


m = check(os.path.join(here, "MANIFEST.json"), "/root/.vp/MANIFEST.schema.json", ["version", "setup_cmd", "hooks", "checks"])
ids = [c["property_id"] for c in m["checks"]] + [c["property_id"] for c in m.get("not_applicable", [])]
props = [json.loads(l)["id"] for l in open(os.path.join(here, "properties.jsonl")) if l.strip()]
assert sorted(ids) == sorted(props), "every property must be claimed or listed under not_applicable exactly once"
n = 0
for p in sorted(glob.glob(os.path.join(here, "evidence", "C??.json"))):
    check(p, "/root/.vp/EVIDENCE.schema.json", ["property_id", "tier", "seed", "level", "coverage", "wall_s"])
    n += 1
print("manifest ok (%d checks, %d not_applicable); %d evidence files valid%s" % (len(m["checks"]), len(m.get("not_applicable", [])), n, "" if jsonschema else " (structural check only)"))
