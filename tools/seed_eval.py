#!/usr/bin/env python3
"""
tools/seed_eval.py <src_dir> <PID> <k> [--checks C01,C02,...] [--tier quick] [--no-tests]

Confirms a seeded property-breaking change written by a sub-agent (src_dir/m<k>.diff, src_dir/m<k>_demo.py) and records it
under /verif/seeded/<PID>-m<k>/ :
  1. fresh scratch worktree of /repo's HEAD (never /repo itself), `git apply` the patch;
  2. the pinned test suite must still pass there;
  3. the demonstration must exit 1 with the change and 0 on the clean tree;
  4. the given checks (default: the property's own) are run against the worktree (VERIF_REPO) and their verdicts recorded;
  5. the worktree is removed.
"""
import argparse
import json
import os
import re
import shutil
import subprocess
import sys
import time
from pathlib import Path

VERIF = Path(__file__).resolve().parent.parent


def sh(cmd, cwd=None, env=None, timeout=3600):
    p = subprocess.run(cmd, shell=True, cwd=cwd, env=env, capture_output=True, text=True, timeout=timeout)
    return p.returncode, p.stdout + p.stderr


def main():
    ap = argparse.ArgumentParser()
    ap.add_argument("src")
    ap.add_argument("pid")
    ap.add_argument("k")
    ap.add_argument("--checks", default=None)
    ap.add_argument("--tier", default="quick")
    ap.add_argument("--no-tests", action="store_true")
    ap.add_argument("--tag", default="")
    a = ap.parse_args()
    src = Path(a.src)
    patch = src / ("m%s.diff" % a.k)
    demo = src / ("m%s_demo.py" % a.k)
    out = VERIF / "seeded" / ("%s-%sm%s" % (a.pid, a.tag, a.k))
    wt = Path("/dev/shm/vfy-seed-%d" % os.getpid())
    meta = {"property": a.pid, "source": "independent sub-agent given only the property record and a scratch worktree", "patch": "patch.diff", "demo": "demo.py", "ran": []}
    rc, o = sh("git -C /repo worktree add -q --detach %s HEAD" % wt)
    assert rc == 0, o
    try:
        rc, o = sh("git apply %s" % patch, cwd=wt)
        if rc != 0:
            print("PATCH DOES NOT APPLY:", o)
            return 2
        meta["repo_head"] = sh("git -C /repo rev-parse --short HEAD")[1].strip()
        meta["files_touched"] = sorted(set(re.findall(r"^\+\+\+ b/(.+)$", patch.read_text(), re.M)))
        if not a.no_tests:
            t0 = time.time()
            rc, o = sh("/venv/bin/python -m pytest -q -p no:cacheprovider --timeout=900 2>&1 | tail -3", cwd=wt, timeout=3000)
            m = re.search(r"(\d+) passed", o)
            f = re.search(r"(\d+) failed", o)
            meta["tests"] = {"passed": int(m.group(1)) if m else 0, "failed": int(f.group(1)) if f else 0, "wall_s": round(time.time() - t0, 1)}
            meta["ran"].append("cd <worktree> && /venv/bin/python -m pytest -q -p no:cacheprovider --timeout=900")
            print("tests:", meta["tests"])
        env = dict(os.environ, PYTHONPATH=str(wt))
        rc1, o1 = sh("/venv/bin/python %s" % demo, cwd=wt, env=env, timeout=600)
        env0 = dict(os.environ, PYTHONPATH="/repo")
        rc0, o0 = sh("/venv/bin/python %s" % demo, cwd="/repo", env=env0, timeout=600)
        meta["demo"] = {"file": "demo.py", "exit_with_change": rc1, "exit_on_clean_tree": rc0}
        meta["ran"].append("cd <worktree> && PYTHONPATH=<worktree> /venv/bin/python demo.py  (and the same in /repo)")
        print("demo: with change exit=%d, clean exit=%d" % (rc1, rc0))
        checks = (a.checks.split(",") if a.checks else [a.pid])
        verdicts = {}
        for c in checks:
            t0 = time.time()
            envc = dict(os.environ, VERIF_REPO=str(wt))
            rc, o = sh("./check %s --tier %s" % (c, a.tier), cwd=VERIF, env=envc, timeout=7200)
            fps = sorted(set(re.findall(r"# ([^:\n]+(?::[^:\n ]+)*):", "\n".join(l for l in o.splitlines() if l.startswith("VIOLATION")))))
            lines = [l for l in o.splitlines() if l.startswith("VIOLATION")]
            verdicts[c] = {"exit": rc, "violation_lines": len(lines), "fingerprints": [l.split("# ", 1)[1][:160] for l in lines[:6]], "wall_s": round(time.time() - t0, 1)}
            meta["ran"].append("VERIF_REPO=<worktree> ./check %s --tier %s" % (c, a.tier))
            print("check %s: exit=%d  %s" % (c, rc, (lines[0].split("# ", 1)[1][:150] if lines else o.strip().splitlines()[-1][:150])))
        meta["checks"] = verdicts
        meta["caught_by"] = sorted(c for c, v in verdicts.items() if v["exit"] == 1)
    finally:
        sh("git -C /repo worktree remove --force %s" % wt)
        for f in (VERIF / "evidence").glob("*.mutant.json"):
            f.unlink()
    ok = (a.no_tests or (meta["tests"]["failed"] == 0 and meta["tests"]["passed"] >= 405)) and meta["demo"]["exit_with_change"] == 1 and meta["demo"]["exit_on_clean_tree"] == 0
    meta["confirmed"] = bool(ok)
    notes = src / "notes.md"
    if ok:
        out.mkdir(parents=True, exist_ok=True)
        shutil.copy(patch, out / "patch.diff")
        shutil.copy(demo, out / "demo.py")
        if notes.exists():
            shutil.copy(notes, out / "agent_notes.md")
        old = {}
        if (out / "meta.json").exists():
            old = json.loads((out / "meta.json").read_text())
            for k in ("needs_to_manifest", "summary"):
                if k in old:
                    meta[k] = old[k]
            if a.no_tests and "tests" in old:
                meta["tests"] = old["tests"]
        (out / "meta.json").write_text(json.dumps(meta, indent=1) + "\n")
        print("kept as", out, "caught_by", meta["caught_by"])
    else:
        print("NOT CONFIRMED:", json.dumps(meta.get("tests")), meta["demo"])
    return 0


if __name__ == "__main__":
    sys.exit(main())
