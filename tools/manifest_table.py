CHECKS = [
    {
        "property_id": "C01",
        "level": "model_checking",
        "design_ref": "DESIGN.md 4/C01",
        "technique": "bounded-exhaustive enumeration of operator trees x divisors against an independent reference, plus explicit-state search over query histories (memoisation)",
        "text": "Every (divisor, residue set, count) of the lemma space, every operator tree of the depth bound x every divisor of the tier, "
        "and every permutation of the query set on fresh objects is executed on the real BitLengthSet and compared with ref.bls "
        "(explicit sets and binary-exponentiation residues, cross-checked with each other). This is the space in which the "
        "k -> min(k, d + k mod d) reduction and the lcm step of padding can be wrong.",
        "note": "trusted: ref/bls.py; bounded by depth, leaf alphabet, divisor range of the tier",
    },
    {
        "property_id": "C02",
        "level": "exploration",
        "design_ref": "DESIGN.md 4/C02",
        "technique": "bounded-exhaustive enumeration of type descriptions (all shapes up to depth/size bound, boundary capacities) against a reference layout model",
        "text": "Every type description of the bounded grammar (all widths, capacities 1..3 plus the 2**8/2**16/2**32 boundaries, every field "
        "order of <=3 fields / variants, sealed and delimited, nesting depth 2 quick / 3 thorough) is built with the public constructors "
        "(a stated subset also from DSDL text) and its bit_length_set, alignment, extent, prefix/tag/header widths are compared with "
        "ref.layout; extent admissibility is probed on both sides of the boundary.",
        "note": "trusted: ref/layout.py (explicit cursor semantics, cross-checked with the analytic tree) and ref/bls.py",
    },
    {
        "property_id": "C03",
        "level": "model_checking",
        "design_ref": "DESIGN.md 4/C03",
        "technique": "explicit-state search over line-event histories of the real parser/builder, reference model comparison in every state",
        "text": "Every line history up to the tier's length bound over a 12-symbol line alphabet (one symbol per branch of the "
        "attribute/comment flush logic) is executed on the real reader as a complete program under every end-of-input and "
        "formatting variant; the model must equal the reference model of the abstract lines, be invariant under formatting, "
        "and survive a render/re-read round trip. Exhaustive within the bound, which is where lazily committed attributes can go wrong.",
        "note": "trusted: ref/doc.py (comment attachment convention and source order), the renderer; bounded by history length and the attribute type alphabet",
    },
    {
        "property_id": "C04",
        "level": "exploration",
        "design_ref": "DESIGN.md 4/C04",
        "technique": "bounded-exhaustive enumeration of expression trees x renderings, evaluated by the real front end and compared with an exact-arithmetic reference evaluator bound to the precedence table by an independent parser",
        "text": "Every expression tree of depth 1 over a 22-literal alphabet and of depth 2 (one non-literal operand per binary node) over mixed-kind, "
        "all-rational and boolean sub-alphabets, with all 17 binary / 3 unary / attribute operators, is rendered with minimal parentheses, fully "
        "parenthesised, without blanks and with double blanks, evaluated through @print (sub-families through constants, capacities, @extent, "
        "@assert) and compared with ref.expr; exactly the undefined combinations must be rejected with InvalidDefinitionError.",
        "note": "trusted: ref/expr.py semantics table; renderer/parser self-check on every tree; non-integer and >64 exponents and min/max of singleton non-rational sets are outside the compared space",
    },
    {
        "property_id": "C05",
        "level": "exploration",
        "design_ref": "DESIGN.md 4/C05",
        "technique": "exhaustive enumeration of valid skeletons x rule-violation catalogue (singles, compatible pairs, products of boundary-inside instances) against a conjunctive validity predicate",
        "text": "10 valid skeletons x a ~470-instance catalogue holding, for every static rule of the property, the values just inside and just outside the "
        "boundary; every single instance on every applicable skeleton, every compatible pair of a 59-entry sub-catalogue (masking), and products of inside "
        "instances (the accept direction). Accepted iff every applied instance is an inside instance; every rejection must be InvalidDefinitionError.",
        "note": "trusted: the inside/outside labels of the catalogue (c05.py) and the slot-independence table used for pairs",
    },
    {
        "property_id": "C06",
        "level": "exploration",
        "design_ref": "DESIGN.md 4/C06",
        "technique": "bounded-exhaustive enumeration of (type, value) pairs against a naive reference codec (bit lists, own IEEE-754 encoder)",
        "text": "Every (type, value) pair of the bounded grammar/value alphabet is serialized by the real codec and compared byte for byte with "
        "ref.codec, the length is checked for membership in the type's bit_length_set (inner/outer set for delimited types), the "
        "round trip is compared with the cast-mode/default canonical value, relaxed spellings must give the same bytes. Exhaustive "
        "within the bound, where offset x width x nesting dependent codec bugs live.",
        "note": "trusted: ref/codec.py, ref/layout.py, gen/values.py (value alphabet; product caps are stated in the evidence)",
    },
    {
        "property_id": "C07",
        "level": "exploration",
        "design_ref": "DESIGN.md 4/C07",
        "technique": "bounded-exhaustive enumeration of (type, byte string) pairs (alphabet strings, all prefixes / single-bit flips / junk suffixes of valid representations) against a reference decoder, plus metamorphic clauses on the real code",
        "text": "Every byte string of the bounded families is decoded by the real deserializer for every type of the bounded grammar, with and "
        "without the top-level delimiter header; result or rejection must equal the reference decoder's (zero extension, truncation, "
        "bounded sub-objects, the four rejection classes); fixed point, zero-extension and container-independence are checked on the real code alone.",
        "note": "trusted: ref/codec.py decode; byte strings are bounded families, not all strings",
    },
    {
        "property_id": "C08",
        "level": "exploration",
        "design_ref": "DESIGN.md 4/C08",
        "technique": "bounded-exhaustive enumeration of (composite, base offset set, field) with start positions observed on validated reference wire traces over all shapes; intrinsics evaluated through DSDL text",
        "text": "For every composite of the bounded grammar every shape (all array lengths x union variants) is encoded with a position trace that is "
        "validated byte-for-byte against the real serializer; iterate_fields_with_offsets / enumerate_elements_with_offsets must yield "
        "each field once, in order, with exactly {pad(base)+start} for six base offset sets; _offset_ is printed at every position of "
        "every structure <=3 fields and after the last union variant, T._bit_length_/T._extent_ for dependencies.",
        "note": "trusted: ref/codec.py traces (validated against the implementation on every use), ref/layout.py cursor formulation (cross-checked with the traces); after a nested delimited object positions are those of its declared extent envelope",
    },
    {
        "property_id": "C13",
        "level": "exploration",
        "design_ref": "DESIGN.md 4/C13",
        "technique": "bounded-exhaustive enumeration of definition texts (all token strings up to a length bound, all one-step token mutations of valid seeds, arithmetic/escape/nesting catalogue) and file names, each read by the real front end",
        "text": "Every string of <=3 (thorough 4) tokens over a 36-token alphabet with and without blanks, every single-token deletion/duplication/swap/"
        "replacement/insertion in 12 valid seeds, a catalogue of arithmetic corner cases, escape boundaries, nesting depths 1..100 and long chains, and "
        "60 file names / same-identity file pairs: the outcome must be a model or an InvalidDefinitionError carrying a path. Seven escapes found this "
        "way were repaired; one structural one (>=199 fields) is a listed known finding.",
        "note": "texts are bounded families of Unicode strings, not all strings; astronomically large literals/powers are excluded as resource exhaustion",
    },
    {
        "property_id": "C14",
        "level": "exploration",
        "design_ref": "DESIGN.md 4/C14",
        "technique": "bounded-exhaustive enumeration of prefix-related delimited type pairs x container positions x values, two-directional differential decoding against a reference",
        "text": "Every pair of delimited types whose field lists (<=3 fields) are prefix-related, with a common extent, nested as top-level object, middle "
        "field, fixed/variable array element, union variant and field of another delimited type: container layout must be identical and every "
        "value written with one revision must be read with the other exactly as the Specification says, in both directions.",
        "note": "trusted: ref/codec.py and the explicit convert() expectation (checked against each other on every case)",
    },
    {
        "property_id": "C09",
        "level": "model_checking",
        "design_ref": "DESIGN.md 4/C09",
        "technique": "exhaustive enumeration of dependency graphs (every edge set over <=3 nodes, 4 in the thorough tier) x operations and target orders against a reference resolution model, plus explicit-state search over read orders of cached definition objects",
        "text": "Every edge set (self loops and cycles included) over the nodes of four name/version assignments, references spelled absolute and relative, read "
        "through read_namespace and through read_files for every target subset in every list order; a reference must resolve to exactly the named "
        "(full name, version), nested types must dump identically to a standalone read of that file, everything else must be a clean "
        "InvalidDefinitionError within the watchdog; 22 bad-reference families; every read order of the cached definition objects of acyclic graphs.",
        "note": "trusted: ref/ns.py closure/resolution; graphs bounded at 3 (thorough: a slice of 4-node graphs) definitions; history part uses the internal read()",
    },
    {
        "property_id": "C10",
        "level": "model_checking",
        "design_ref": "DESIGN.md 4/C10",
        "technique": "stateless exploration of the real reader under a controlled scheduler (every rglob order and bookkeeping-set iteration order is a choice point), deviation-bounded DFS, outcomes compared with a reference model and with the canonical schedule",
        "text": "16 namespace trees x read_namespace and read_files over every target subset and list order, each executed under every schedule "
        "within the deviation bound (unbounded for <=3 files); the outcome must equal ref.ns (one composite per file, none from lookups, order, "
        "direct/transitive split) and be identical across schedules; ~60 argument spellings per tree; 176 directory sets x the collision flag; "
        "a supplementary cross-process hash-seed pass (8 seeds) for the set comprehensions the scheduler cannot own.",
        "note": "trusted: ref/ns.py; move set reduced for >=4 items; the hash-seed pass is sampled and reported separately (hashseed_runs), never used to claim exhaustiveness",
    },
    {
        "property_id": "C11",
        "level": "exploration",
        "design_ref": "DESIGN.md 4/C11",
        "technique": "exhaustive enumeration of pairs (thorough: triples) of definition symbols x placements against a cross-definition predicate",
        "text": "All 14,580 unordered pairs of 180 definition symbols (name x version incl. major 0 x kind x port-ID none/p/q x sealed/extent 64/extent 128), "
        "placed entirely in the target namespace, with one member in a same-named lookup root and referenced (transitive), or present there but "
        "unreferenced; thorough adds services with independent request/response layouts and all triples over 60 symbols. Accepted iff the "
        "port-ID clause (over direct definitions) and the minor-version clause (over direct and transitive ones) hold; every rejection is InvalidDefinitionError.",
        "note": "trusted: cross() in c11.py (the statement of C11); symbol alphabet is finite",
    },
    {
        "property_id": "C12",
        "level": "exploration",
        "design_ref": "DESIGN.md 4/C12",
        "technique": "exhaustive enumeration of (constant type, boundary initializer) pairs through the public reader against a compliance predicate",
        "text": "Every constant-capable type (all widths 1..64, all cast-mode spellings, three float widths) and every inadmissible carrier x every "
        "initializer at, just inside and just outside each boundary (exact float limits +- 1e-30), non-integers, booleans, strings of "
        "length 0/1/2, non-ASCII / escaped / surrogate code points, sets: accepted iff compliant, stored value exact, rejection is InvalidDefinitionError.",
        "note": "trusted: the compliance predicate expected() in c12.py; initializer alphabet is finite per type",
    },
    {
        "property_id": "C15",
        "level": "exploration",
        "design_ref": "DESIGN.md 4/C15",
        "technique": "exhaustive enumeration of (directory layout, file name, designation of targets/roots, working directory) configurations materialised on a scratch file system, identity compared with a pure function of the path",
        "text": "Every namespace depth 0..2 (incl. a sub-namespace named like the root), short name, version, present/absent port-ID x 12 ways of designating "
        "targets and roots to read_files and 5 to read_namespace (absolute, relative, bare name, inferred, symlink, '..', two roots in both orders, "
        "str vs Path) x two working directories, plus 70 well- and ill-formed file names: the outcome is the identity encoded in the path or an "
        "InvalidDefinitionError, never another identity; documented designations must work; ill-formed names must be rejected.",
        "note": "trusted: expected_from_name() and the expected identity computed from the generated layout; leading zeros are not treated as ill-formed",
    },
    {
        "property_id": "C16",
        "level": "exploration",
        "design_ref": "DESIGN.md 4/C16",
        "technique": "exhaustive enumeration of capacity/extent exponents over a template family under a deterministic step counter (sys.monitoring) with invariants: no numerical expansion, no residue set larger than the divisor, step count bounded independent of the exponent",
        "text": "20 definition templates x every capacity/extent 2**e, e=1..63 (thorough also 2**e+-1) x every operation the property lists; cost is "
        "measured in deterministic Python-level loop iterations inside pydsdl, not seconds. The pre-repair tree violates the step budget on 7 templates "
        "already at capacities 8..32 (see known_findings.txt).",
        "note": "a cost property decided on an enumerated family: shows boundedness there, not an asymptotic theorem; C-level iterators are covered by a CPU-time backstop only",
    },
    {
        "property_id": "C17",
        "level": "exploration",
        "design_ref": "DESIGN.md 4/C17",
        "technique": "exhaustive enumeration of (fault category, surrounding lines, EOL style, location in the dependency graph) with the expected path/line computed from the generated text",
        "text": "15 fault categories (immediate, lazily committed and finalize-time errors) and @print x every prefix/suffix of context lines over a 5-symbol "
        "alphabet x LF/CRLF x five locations (target, dependency in a lookup root, dependency of a dependency, same-root dependency read before / "
        "after its referrer): error.path must be the faulty file, a reported line the fault's own line, @print delivered exactly once with its own "
        "path and line. Four attribution defects found this way were repaired.",
        "note": "a line is only checked when one is reported; missing-mode errors have no single offending statement and only their path is checked",
    },
    {
        "property_id": "C18",
        "level": "exploration",
        "design_ref": "DESIGN.md 4/C18",
        "technique": "exhaustive all-ordered-pairs comparison over a catalogue of independently built model objects; reflection over list-returning accessors; pickle round trip",
        "text": "Every ordered pair of a ~530-entry catalogue (types, attributes, expression values, bit length set trees incl. differently built equal sets) "
        "is compared for symmetry, hash consistency and the required (in)equalities; every public list-returning accessor found by reflection is mutated; "
        "every object is pickled and compared by deep dump.",
        "note": "trusted: mc/dump.py deep dump, ref/bls.py and ref/layout.py for set equality; catalogue is finite",
    },
    {
        "property_id": "C19",
        "level": "exploration",
        "design_ref": "DESIGN.md 4/C19",
        "technique": "exhaustive differential enumeration: every definition outside the reference-computed closure x every replacement text of a catalogue, outcome/open/print observations compared with the unmodified run",
        "text": "22 namespace trees and every acyclic 3-node dependency graph x read_namespace and read_files for every single target and the full set x every "
        "definition file outside the closure x 42 replacement texts (garbage, one per rule class, failing assert, @print, other kind/extent/sealing than "
        "sibling versions, colliding port-IDs, crashing corner cases): the deep dump of the result or the (class, path, line) of the error must not "
        "change, the file must never be opened (module-global open replaced) and the print handler must never fire for it.",
        "note": "trusted: ref/ns.py closure (validated against direct/transitive in C09/C10); replacements are a finite catalogue",
    },
]

NOT_APPLICABLE = []  # every property is decided by bounded exhaustive exploration (DESIGN.md section 6)
assert sorted(c["property_id"] for c in CHECKS) == ["C%02d" % i for i in range(1, 20)]

# Families added in later sessions (the exact alphabets are in each check's RULE string and in its evidence file).
_HIST = (" Call histories: ordered pairs of API calls in ONE process over trees that share names (revisions of a nested definition that name, version and size "
         "cannot tell apart, the same fault in different files, other flags, minor versions spread over calls, a shared lookup-list object; in another directory and "
         "in the same directory edited in place) - every call must give what it gives as the only call under names no earlier call has seen.")
_EXTRA = {
    "C01": " Also: binary nodes with both operands composed, operands that differ as sets but agree in min / max / residues mod 32, sets handed out by the type model and offsets over colliding base sets, every divisor list asked in ascending and descending order.",
    "C02": " Also: sequences of types over members the approximate length-set equality cannot tell apart, same-named distinct types, lengths beyond 2**53 bits.",
    "C03": " Also: bare '#' lines, same-named constants across service sections." + _HIST,
    "C04": " Also: identifiers as operands (per schema section, services re-declaring names, foreign constants), canonically equivalent strings, sinks that must not floor / re-encode their operand." + _HIST,
    "C05": " Also: several definitions read together (shared dependencies, ports of dependencies, rules inside dependency chains)." + _HIST,
    "C06": " Also: operation histories over same-named types, integral float inputs, arrays of arrays of composites, colliding union variants, caller-side modification of every list the model hands out or receives." + _HIST,
    "C07": " Also: decoding histories over same-named types, caller-side modification of accessor lists." + _HIST,
    "C08": " Also: traversal histories on one object (abandoned, interleaved), collider sequences, services with intrinsics at every single position.",
    "C09": " Also: multi-edges with mixed spellings, letter-case twins, file twins (legacy extension / port prefix), digit-ambiguous versions." + _HIST,
    "C10": " Also: parent directories with glob / shell-special names, two versions of one dependency." + _HIST + " A canonical execution that is not reproducible in the same process is a violation.",
    "C11": " Also: chains of three minor versions split between target and lookup roots with bystander targets, extreme port values." + _HIST,
    "C12": " Also: real-literal notations, NFC-collapsing characters." + _HIST,
    "C13": " Also: astronomic magnitudes in every numeric sink x error follow-ups, exotic operands (types, sets of sets, fields of foreign types) under every operator." + _HIST,
    "C14": " Also: one container nesting several revisions with digit-ambiguous versions." + _HIST,
    "C15": " Also: working directory above the parent of the root, one-shot iterator arguments, non-ASCII names, the same directory under several roots in one process, a target under several same-named roots, caller-side modification of name_components." + _HIST,
    "C16": " Now 30 type templates + 4 text templates that evaluate an intrinsic early; divisor sweeps on one object; equality against primitives and literal sets.",
    "C17": " Now 20 faults, a 9-symbol context alphabet (incl. a statement continuing on the next physical line and FF/VT/LS/PS inside comments), LF/CRLF/CR/mixed, read_files with targets named several times." + _HIST,
    "C18": " Also: pickles loaded in another interpreter under another hash seed, copies / deep copies of composites with constants (by-name view).",
    "C19": " Also: error-outcome configurations (dangling versions, case-mismatched references), deprecated dependencies with newer versions, twin roots with duplicated list entries, failed-call histories." + _HIST,
}
_EXTRA2 = {
    "C03": " Reads aborted while documentation is pending, followed by documented definitions (doc-faults histories); comment texts that begin with '#' or blanks. Constants initialised from another definition's false / true / zero constants. Sections with @extent 0.",
    "C04": " Exact values beyond the range of a double (2**1024 .. 10**400, 2**-1100) as final and intermediate results.",
    "C06": " Texts that are not in a Unicode normal form. Dict key order at every nesting level; a failed write (one unencodable leaf at every position) before every other valid write.",
    "C08": " Every structure with two or more fields is walked, as one object, at base sets the approximate set equality cannot tell apart. Intrinsics over zero-extent dependencies.",
    "C10": " A nested namespace repeating the root's name, root designated by bare name. Service definitions; objects of read_files == those of read_namespace; legacy files read repeatedly in one process.",
    "C11": " One of three minor versions edited in place between calls of one process (minor-version-edits histories). Legacy files read repeatedly in one process (legacy-repeats histories).",
    "C12": " ASCII characters next to lone surrogates. Constants built with the public constructors from Rational(int / Fraction / float), Boolean, String.",
    "C14": " Floating-point members in the revision alphabets. A failed write before every other valid write.",
    "C15": " Absolute roots with targets relative to every working directory must be read (repair b8a7a3e); a file under exactly one of several same-named roots from every working directory. The same relative designation under changing working directories; targets whose names differ only by letter case. Control characters after the numeric fields of a file name.",
    "C17": " String literals that denote line breaks through escapes. Six kinds of print handler through read_files and read_namespace. String literals holding raw FF / VT / LS / PS; @print in dependencies across repeated calls.",
    "C18": " Distinct bodies under one name and version, and their containers that collide under the approximate set equality. Results of bit length set queries modified by the caller.",
    "C19": " Every small configuration also under strict=True. Self-reference / cycle next to a same-identity twin; shared-arguments histories. Lookup directories whose names extend the root's name.",
    "C01": " Every cat / uni tree also through one-shot iterators of raw operands.",
    "C02": " Arrays of arrays through the public constructors; capacities and extents written as expressions (chained **, left-associative chains).",
    "C05": " Valid names that begin with a type keyword, in every reference position. Names taken from the file system (short names, namespace components, root) incl. trailing control characters.",
    "C13": " File-name twins holding services, unions, delimited and deprecated definitions. Sets of array types; magnitudes at the 4300-digit conversion limit; directories named like definition files.",
    "C16": " Seven rejected templates (fault after a huge attribute).",
}
for _c in CHECKS:
    _c["text"] += _EXTRA.get(_c["property_id"], "") + _EXTRA2.get(_c["property_id"], "")
