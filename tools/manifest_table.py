CHECKS = [
    {
        "property_id": "C01",
        "level": "model_checking",
        "design_ref": "DESIGN.md 4/C01",
        "technique": "bounded-exhaustive enumeration of operator trees x divisors against an independent reference, plus explicit-state search over query histories (memoisation)",
        "text": "Every (divisor, residue set, count) of the lemma space, every operator tree of the depth bound x every divisor of the tier, "
        "and every permutation of the query set on fresh objects is executed on the real BitLengthSet and compared with ref.bls "
        "(explicit sets and binary-exponentiation residues, cross-checked with each other). This is the space in which the "
        "k -> min(k, d + k mod d) reduction and the lcm step of padding can be wrong.",
        "note": "trusted: ref/bls.py; bounded by depth, leaf alphabet, divisor range of the tier",
    },
    {
        "property_id": "C02",
        "level": "exploration",
        "design_ref": "DESIGN.md 4/C02",
        "technique": "bounded-exhaustive enumeration of type descriptions (all shapes up to depth/size bound, boundary capacities) against a reference layout model",
        "text": "Every type description of the bounded grammar (all widths, capacities 1..3 plus the 2**8/2**16/2**32 boundaries, every field "
        "order of <=3 fields / variants, sealed and delimited, nesting depth 2 quick / 3 thorough) is built with the public constructors "
        "(a stated subset also from DSDL text) and its bit_length_set, alignment, extent, prefix/tag/header widths are compared with "
        "ref.layout; extent admissibility is probed on both sides of the boundary.",
        "note": "trusted: ref/layout.py (explicit cursor semantics, cross-checked with the analytic tree) and ref/bls.py",
    },
    {
        "property_id": "C03",
        "level": "model_checking",
        "design_ref": "DESIGN.md 4/C03",
        "technique": "explicit-state search over line-event histories of the real parser/builder, reference model comparison in every state",
        "text": "Every line history up to the tier's length bound over a 12-symbol line alphabet (one symbol per branch of the "
        "attribute/comment flush logic) is executed on the real reader as a complete program under every end-of-input and "
        "formatting variant; the model must equal the reference model of the abstract lines, be invariant under formatting, "
        "and survive a render/re-read round trip. Exhaustive within the bound, which is where lazily committed attributes can go wrong.",
        "note": "trusted: ref/doc.py (comment attachment convention and source order), the renderer; bounded by history length and the attribute type alphabet",
    },
]

_TODO = "check not built yet in this round (see DESIGN.md 9, implementation order)"
NOT_APPLICABLE = [
    {"property_id": "C%02d" % i, "reason": _TODO} for i in range(1, 20) if "C%02d" % i not in {c["property_id"] for c in CHECKS}
]
