#!/bin/bash
# Offline self-test run by MANIFEST.setup_cmd: manifest/evidence validate, pydsdl is importable from /repo.
set -e
cd "$(dirname "$0")/.."
if command -v python3-vt >/dev/null 2>&1; then python3-vt tools/validate.py; else /venv/bin/python tools/validate.py; fi
PYTHONPATH="$PWD" /venv/bin/python -c "from mc import engine; engine.bind_repo(); print('pydsdl bound to', engine.REPO)"
