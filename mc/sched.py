"""
Controlled scheduler for the nondeterminism of the namespace reader (C10, and the order clauses of C09/C19).

Choice points owned by the harness, without touching the source:
  * every iteration over a bookkeeping set created through the module-global name `set` in pydsdl._namespace,
    pydsdl._namespace_reader and pydsdl._dsdl (replaced by ChoiceSet);
  * every pathlib.Path.rglob call (directory enumeration order).
A choice is an index into the list of candidate permutations of the natural order (n <= 3: all n!; n >= 4: the reduced
move set identity, reversal, adjacent transpositions, rotations).  Exploration is the deviation-bounded DFS of the
brief: replay a prefix of choices, take choice 0 afterwards, branch on every later choice point while the number of
non-zero choices stays within the bound.
"""
from __future__ import annotations

import itertools
import pathlib
import sys

_current: "Schedule | None" = None


class ReplayDivergence(Exception):
    pass


class CanonicalNotReproducible(ReplayDivergence):
    """The SAME call under the SAME answers at every choice point took another course the second time: the harness owns
    every source of nondeterminism, so the difference comes from state the first execution left behind in the library."""


def permutations_of(n: int) -> list[tuple[int, ...]]:
    ident = tuple(range(n))
    if n <= 1:
        return [ident]
    if n <= 3:
        return [ident] + [p for p in itertools.permutations(range(n)) if p != ident]
    out = [ident, tuple(reversed(ident))]
    for i in range(n - 1):
        p = list(ident)
        p[i], p[i + 1] = p[i + 1], p[i]
        out.append(tuple(p))
    for r in range(1, n):
        out.append(tuple(ident[r:] + ident[:r]))
    seen, res = set(), []
    for p in out:
        if p not in seen:
            seen.add(p)
            res.append(p)
    return res


class Schedule:
    def __init__(self, prefix: list[int]):
        self.prefix = list(prefix)
        self.trace: list[tuple[str, int, int]] = []  # (site, arity, choice)

    def choose(self, site: str, n_items: int) -> tuple[int, ...]:
        perms = permutations_of(n_items)
        idx = len(self.trace)
        c = self.prefix[idx] if idx < len(self.prefix) else 0
        if c >= len(perms):
            raise ReplayDivergence("choice %d out of range at point %d (%s, arity %d)" % (c, idx, site, len(perms)))
        self.trace.append((site, len(perms), c))
        return perms[c]

    @property
    def choices(self) -> list[int]:
        return [c for _s, _a, c in self.trace]

    @property
    def signature(self) -> list[tuple[str, int]]:
        return [(s, a) for s, a, _c in self.trace]


def _site() -> str:
    f = sys._getframe(2)
    while f is not None and "/pydsdl/" not in f.f_code.co_filename:
        f = f.f_back
    if f is None:
        return "?"
    return "%s:%s" % (f.f_code.co_filename.rsplit("/", 1)[-1], f.f_code.co_name)


class ChoiceSet(set):
    """A set whose iteration order is a choice point."""

    def __iter__(self):
        items = list(super().__iter__())
        if _current is None or len(items) <= 1:
            return iter(items)
        perm = _current.choose("set@" + _site(), len(items))
        return iter([items[i] for i in perm])


_orig_rglob = pathlib.Path.rglob
_installed = False


def _rglob(self, pattern, **kw):
    items = sorted(_orig_rglob(self, pattern, **kw))  # natural order := sorted (os.scandir order is arbitrary)
    if _current is None or len(items) <= 1:
        return iter(items)
    perm = _current.choose("rglob@" + str(pattern), len(items))
    return iter([items[i] for i in perm])


def install() -> None:
    global _installed
    if _installed:
        return
    import pydsdl._dsdl
    import pydsdl._namespace
    import pydsdl._namespace_reader

    for m in (pydsdl._namespace, pydsdl._namespace_reader, pydsdl._dsdl):
        m.set = ChoiceSet  # type: ignore[attr-defined]
    pathlib.Path.rglob = _rglob  # type: ignore[method-assign]
    _installed = True


def run_with(prefix: list[int], fn):
    """Execute fn() under the schedule `prefix + canonical afterwards`; returns (result, Schedule)."""
    global _current
    install()
    s = Schedule(prefix)
    _current = s
    try:
        out = fn()
    finally:
        _current = None
    if len(s.trace) < len(prefix):
        raise ReplayDivergence("execution ended after %d choice points, prefix has %d" % (len(s.trace), len(prefix)))
    return out, s


def explore(fn, bound: int | None, on_execution, max_executions: int = 200000):
    """
    Deviation-bounded DFS. fn() -> observation (must be deterministic given the choices).
    on_execution(observation, schedule) is called for every execution. bound=None: unbounded.
    Returns (executions, choice points seen in the canonical run, capped?).
    """
    # determinism self-test: the canonical schedule twice
    o1, s1 = run_with([], fn)
    o2, s2 = run_with([], fn)
    if s1.trace != s2.trace or o1 != o2:
        raise CanonicalNotReproducible("canonical schedule is not reproducible: %r vs %r; %r vs %r" % (s1.trace, s2.trace, o1, o2))
    executions = 0
    capped = False
    stack = [[]]
    first = True
    while stack:
        prefix = stack.pop()
        if first:
            obs, sch = o1, s1
            first = False
        else:
            obs, sch = run_with(prefix, fn)
            if sch.choices[: len(prefix)] != prefix:
                raise ReplayDivergence("prefix not replayed")
        executions += 1
        on_execution(obs, sch)
        if executions >= max_executions:
            capped = True
            break
        dev_prefix = sum(1 for c in prefix if c != 0)
        for i in range(len(prefix), len(sch.trace)):
            _site_, arity, _c = sch.trace[i]
            if bound is not None and dev_prefix + 1 > bound:
                break
            for alt in range(1, arity):
                stack.append(sch.choices[:i] + [alt])
    return executions, len(s1.trace), capped
