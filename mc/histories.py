"""
Call histories in ONE process over namespace trees that share names.

The library reads definitions through a stack of objects that are tempting to cache (definition objects, type objects, name
checks, resolved references ...).  Whatever a property says about the result of ONE call must also hold when that call is
the n-th call of a process whose earlier calls saw OTHER trees with the same names, versions and sizes (a second checkout,
the same directory after an edit, the same tree under other flags, a failed call).  A step's outcome inside a history is
therefore compared with its SOLO outcome: the same step executed under root-namespace names that no earlier call of the
process has ever seen (names are the only thing process-wide state can be keyed by once directories are fresh), with the
names mapped back before the comparison.

step := {"files": {relative path: text}, "op": "rn" | "rf", "root": <dir>, "lookups": [<dir>...], "targets": [<file>...], "allow": bool}
        paths and texts use the root-namespace tokens `qqa` (targets) and `qql` (lookups); they are renamed per history.
"""
from __future__ import annotations

import itertools
import json
import os
import re

import pydsdl

from . import api, dump, engine, ws

TOKENS = ("qqa", "qqb", "qql")
_counter = [0]


def _fresh_suffix() -> str:
    _counter[0] += 1
    return "%dx%d" % (os.getpid() % 100000, _counter[0])


def _rename(s: str, suffix: str) -> str:
    for t in TOKENS:
        s = s.replace(t, t + suffix)
    return s


def _unrename(obj, suffix: str):
    s = json.dumps(obj, sort_keys=True, default=engine._json_default)
    for t in TOKENS:
        s = s.replace(t + suffix, t)
    return json.loads(s)


def run_step(step: dict, suffix: str, base=None, raw: bool = False, shared_lists: dict | None = None):
    """Executes one step under the given name suffix. Returns (canonical outcome, raw types or None, base directory)."""
    own_base = base is None
    if own_base:
        base = ws.fresh()
    files = {_rename(k, suffix): (_rename(v, suffix) if isinstance(v, str) else v) for k, v in step["files"].items()}
    # files that already hold exactly this text are left UNTOUCHED (same inode, size and modification time as when an earlier
    # step of the history read them)
    todo = {}
    for k, v in files.items():
        p = base / k
        data = v if isinstance(v, bytes) else v.encode("utf-8")
        if not (p.exists() and p.read_bytes() == data):
            todo[k] = v
    ws.write_tree(base, todo)
    for d in [step["root"]] + list(step.get("lookups", [])):
        (base / _rename(d, suffix)).mkdir(parents=True, exist_ok=True)
    prints = []

    def handler(path, line, text):
        prints.append([api.rel(base, path), line, text])

    res = None
    try:
        with engine.deadline(30):
            lookups = [base / _rename(x, suffix) for x in step.get("lookups", [])]
            if shared_lists is not None:
                # ONE list object per designated set of lookup directories for the whole history, never re-initialised
                lookups = shared_lists.setdefault(tuple(str(x) for x in lookups), lookups)
            if step["op"] == "rn":
                res = pydsdl.read_namespace(base / _rename(step["root"], suffix), lookups, handler, allow_unregulated_fixed_port_id=bool(step.get("allow")))
                out = {"ok": [dump.composite(t) for t in res], "paths": [api.rel(base, t.source_file_path) for t in res]}
            else:
                d, t = pydsdl.read_files([base / _rename(x, suffix) for x in step["targets"]], [base / _rename(step["root"], suffix)], lookups, handler, allow_unregulated_fixed_port_id=bool(step.get("allow")))
                res = list(d) + list(t)
                out = {"ok": [[dump.composite(x) for x in d], [dump.composite(x) for x in t]], "paths": [api.rel(base, x.source_file_path) for x in res]}
    except pydsdl.Error as ex:
        out = {"error": [type(ex).__name__, api.rel(base, ex.path) if ex.path else None, ex.line, isinstance(ex, pydsdl.InvalidDefinitionError)]}
    except engine.CaseTimeout:
        out = {"error": ["TIMEOUT", None, None, False]}
    except Exception as ex:  # noqa
        out = {"error": [type(ex).__name__, None, None, False], "culprit": engine.innermost_pydsdl_frame(ex)}
    out["prints"] = prints
    out = _unrename(out, suffix)
    return out, (res if raw else None), base


def run_history(steps: list[dict], flavour: str = "two-dirs", raw: bool = False):
    """
    Runs the steps in order under ONE name suffix.  flavour 'two-dirs': every step in its own fresh directory (several
    checkouts); 'edited': every step in the SAME directory, files rewritten in place (a tree edited between two reads).
    Returns [(outcome, raw)] per step.
    """
    suffix = _fresh_suffix()
    out = []
    bases = []
    shared = ws.fresh() if flavour in ("edited", "shared-arguments") else None
    shared_lists = {} if flavour == "shared-arguments" else None
    try:
        for st in steps:
            if shared is not None:
                # remove the definition files that are not part of this step so that the tree is exactly this step's
                keep = {_rename(k, suffix) for k in st["files"]}
                for p in list(shared.rglob("*.dsdl")) + list(shared.rglob("*.uavcan")):
                    if str(p.relative_to(shared)) not in keep:
                        p.unlink()
            o, r, b = run_step(st, suffix, base=shared, raw=raw, shared_lists=shared_lists)
            if shared is None:
                bases.append(b)
            out.append((o, r))
    finally:
        if not raw:
            for b in bases:
                ws.remove(b)
            if shared is not None:
                ws.remove(shared)
    return out


def solo(step: dict, raw: bool = False):
    o, r, b = run_step(step, _fresh_suffix(), raw=raw)
    if not raw:
        ws.remove(b)
    return o, r


# ------------------------------------------------------------------------------------------------ scenario catalogue
# Revisions of one nested definition that a cache keyed by (name, version, bit length set) cannot tell apart (16 bits each),
# plus two that differ in size / kind.  Every revision declares the constant K.
INNER = [
    "uint16 raw\nuint8 K = 1\n@sealed\n",
    "int16 raw\nuint8 K = 1\n@sealed\n",
    "uint16 other\nuint8 K = 1\n@sealed\n",
    "uint8 lo\nuint8 hi\nuint8 K = 1\n@sealed\n",
    "# documented\nuint16 raw # doc\nuint8 K = 1\n@sealed\n",
    "uint16 raw\nuint8 K = 2\n@sealed\n",
    "@union\nuint8 a\nint8 b\nuint8 K = 1\n@sealed\n",
    "@union\nint8 b\nuint8 a\nuint8 K = 3\n@sealed\n",
    "uint16 raw\nuint8 K = 1\n@extent 16\n",
]
OUTER = {
    "struct": "qql.Inner.1.0 one\nqql.Inner.1.0[2] two\nqql.Inner.1.0[<=2] three\nuint8[<=qql.Inner.1.0.K] cap\nuint8 COPY = qql.Inner.1.0.K\n@print qql.Inner.1.0.K\n@sealed\n",
    "union": "@union\nqql.Inner.1.0 one\nqql.Inner.1.0[<=2] three\nuint8 COPY = qql.Inner.1.0.K + 1\n@sealed\n",
    "service": "qql.Inner.1.0[<=2] three\n@sealed\n---\nqql.Inner.1.0 one\nuint8 COPY = qql.Inner.1.0.K\n@extent 64 * 8\n",
}


def nested_revision_steps(outer: str, op: str):
    """One step per revision of Inner; the referring definition is identical in all of them."""
    for text in INNER:
        files = {"qql/Inner.1.0.dsdl": text, "qqa/Outer.1.0.dsdl": OUTER[outer], "qqa/Plain.1.0.dsdl": "uint8 x\n@sealed\n"}
        st = {"files": files, "op": op, "root": "qqa", "lookups": ["qql"]}
        if op == "rf":
            st["targets"] = ["qqa/Outer.1.0.dsdl"]
        yield st


def nested_revision_histories():
    """(label, [step A, step B]) for every ordered pair of distinct revisions x referring kind x operation."""
    for outer in OUTER:
        for op in ("rn", "rf"):
            steps = list(nested_revision_steps(outer, op))
            for i, j in itertools.permutations(range(len(steps)), 2):
                yield {"family": "nested-revisions", "outer": outer, "op": op, "a": i, "b": j}, [steps[i], steps[j]]


# Same fault (same message, same name) in DIFFERENT files / lines, and valid trees in between.
FAULT_TREES = [
    {"qqa/A.1.0.dsdl": "uint8 aux\n@sealed\n"},
    {"qqa/B.1.0.dsdl": "uint8 fine\n\n# c\nuint8 aux\n@sealed\n"},
    {"qqa/A.1.0.dsdl": "uint8 x\nqql.C.1.0 c\n@sealed\n", "qql/C.1.0.dsdl": "\nuint8 aux\n@sealed\n"},
    {"qqa/A.1.0.dsdl": "uint8 ok\n@sealed\n", "qql/C.1.0.dsdl": "\n\nuint8 aux\n@sealed\n"},  # the fault sits in an UNREFERENCED lookup definition
    {"qqa/D.1.0.dsdl": "uint8 x\nuint8 x\n@sealed\n"},
    {"qqa/E.1.0.dsdl": "\n\nuint8 x\nuint8 x\n@sealed\n"},
    {"qqa/F.1.0.dsdl": "uint8 K = 256\n@sealed\n"},
    {"qqa/G.1.0.dsdl": "uint8 ok\nuint8 K = 256\n@sealed\n"},
    {"qqa/aux/H.1.0.dsdl": "@sealed\n"},
    {"qqa/I.1.0.dsdl": "@assert false\n@sealed\n"},
    {"qqa/A.1.0.dsdl": "uint8 ok\n@print 1\n@sealed\n"},
    # @print directives in a dependency and in a dependency of a dependency (every call has its own handler)
    {"qqa/A.1.0.dsdl": "qql.C.1.0 c\n@print 5\n@sealed\n", "qql/C.1.0.dsdl": "uint8 v\n\n@print 6\n@sealed\n"},
    {"qqa/B.1.0.dsdl": "@print 7\nqql.M.1.0 m\n@sealed\n", "qql/M.1.0.dsdl": "qql.C.1.0 c\n@print 8\n@sealed\n", "qql/C.1.0.dsdl": "@print 9\nuint8 v\n@sealed\n"},
]


def fault_histories():
    steps = [{"files": f, "op": "rn", "root": "qqa", "lookups": ["qql"]} for f in FAULT_TREES]
    for i, j in itertools.permutations(range(len(steps)), 2):
        yield {"family": "faults", "a": i, "b": j}, [steps[i], steps[j]]
    for i in range(len(steps)):
        yield {"family": "faults", "a": i, "b": i}, [steps[i], steps[i]]


# A read that is ABORTED while documentation text is pending (comment lines seen, not yet attached), then a documented definition.
DOC_ABORTS = [
    "# stale header line 1\n# stale header line 2\nuint65 x\n@sealed\n",
    "uint8 a\n# stale attribute doc\nuint8[0] y\n@sealed\n",
    "# stale\nNope.1.0 n\n@sealed\n",
    "uint8 a # stale trailing\n# more stale\nuint8 K = 256\n@sealed\n",
    "# stale before directive\n@assert false\n@sealed\n",
    "@sealed\n# stale in response\n---\n# stale 2\nuint8[<=0] z\n@sealed\n",
    "# stale header\n",
]
DOC_VALID = [
    "uint8 a\n@sealed\n",
    "# Header\n\nuint8 a\n# doc of a\nuint8 b # doc of b\n@sealed\n",
    "@sealed\nuint8 a\n",
    "# Service header\nuint8 q # doc q\n@sealed\n---\nuint8 r\n# doc r\n@sealed\n",
    "#\n# second line only\nuint8 K = 1 # constant doc\n@sealed\n",
]


def doc_fault_histories():
    def st(text):
        return {"files": {"qqa/T.1.0.dsdl": text}, "op": "rn", "root": "qqa", "lookups": []}

    for i, a in enumerate(DOC_ABORTS):
        for j, v in enumerate(DOC_VALID):
            yield {"family": "doc-faults", "abort": i, "valid": j}, [st(a), st(v)]
            if j < 2:
                yield {"family": "doc-faults", "abort": i, "valid": j, "again": True}, [st(v), st(a), st(DOC_VALID[(j + 1) % len(DOC_VALID)])]


# The same tree under different flags: a dependency with an unregulated port-ID.
FLAG_TREE = {"qqa/App.1.0.dsdl": "qql.Thing.1.0 t\n@sealed\n", "qql/100.Thing.1.0.dsdl": "uint8 v\n@sealed\n", "qqa/7000.Own.1.0.dsdl": "@sealed\n"}
FLAG_TREE2 = {"qqa/App.1.0.dsdl": "uint8 t\n@sealed\n", "qqa/100.Own.1.0.dsdl": "@sealed\n"}


def flag_histories():
    for name, tree in (("dependency-port", FLAG_TREE), ("target-port", FLAG_TREE2)):
        for flavour_same_dir in (False, True):
            for order in ((True, False), (False, True), (True, False, True), (False, True, False)):
                steps = [{"files": tree, "op": "rn", "root": "qqa", "lookups": ["qql"], "allow": al} for al in order]
                yield {"family": "flags", "tree": name, "order": list(order), "same_dir": flavour_same_dir}, steps


# Revisions of an appendable (delimited) nested definition with one extent (C14): same name, version and bit length set.
INNER_DELIMITED = [
    "uint8 a\nuint8 K = 1\n@extent 64\n",
    "uint8 a\nuint8 b\nuint8 K = 1\n@extent 64\n",
    "uint8 a\nuint8 b\nuint16 c\nuint8 K = 1\n@extent 64\n",
    "int8 a\nuint8 K = 1\n@extent 64\n",
    "uint8 a\nbool[<=3] flags\nuint8 K = 2\n@extent 64\n",
]


def delimited_revision_histories():
    for outer in ("struct", "union"):
        texts = [{"qql/Inner.1.0.dsdl": t, "qqa/Outer.1.0.dsdl": OUTER[outer], "qqa/Plain.1.0.dsdl": "uint8 x\n@sealed\n"} for t in INNER_DELIMITED]
        steps = [{"files": f, "op": "rn", "root": "qqa", "lookups": ["qql"]} for f in texts]
        for i, j in itertools.permutations(range(len(steps)), 2):
            yield {"family": "delimited-revisions", "outer": outer, "a": i, "b": j}, [steps[i], steps[j]]


# Minor versions of one type spread over calls: what an EARLIER call resolved (or failed on) must not join a later call's set.
def minor_version_histories():
    X = {
        "x10-sealed8": {"qql/X.1.0.dsdl": "uint8 a\n@sealed\n"},
        "x11-sealed16": {"qql/X.1.1.dsdl": "uint16 a\n@sealed\n"},
        "x11-sealed8": {"qql/X.1.1.dsdl": "uint8 b\n@sealed\n"},
        "x11-extent": {"qql/X.1.1.dsdl": "uint8 a\n@extent 64\n"},
        "x10-port": {"qql/6200.X.1.0.dsdl": "uint8 a\n@sealed\n"},
        "x11-service": {"qql/X.1.1.dsdl": "uint8 a\n@sealed\n---\n@sealed\n"},
    }
    users = {
        "uses-1.0": ("qql.X.1.0 x\n@sealed\n", ["x10-sealed8", "x10-port"]),
        "uses-1.0-then-fails": ("qql.X.1.0 x\n@assert false\n@sealed\n", ["x10-sealed8", "x10-port"]),
        "uses-1.1": ("qql.X.1.1 x\n@sealed\n", ["x11-sealed16", "x11-sealed8", "x11-extent"]),
        "uses-1.1-K": ("@assert qql.X.1.1._extent_ >= 0\n@sealed\n", ["x11-sealed16", "x11-extent", "x11-service"]),
    }
    steps = []
    for uname, (utext, xs) in users.items():
        for xn in xs:
            files = {"qqa/%s.1.0.dsdl" % ("A" if "1.0" in uname else "B"): utext}
            files.update(X[xn])
            steps.append(({"user": uname, "x": xn}, {"files": files, "op": "rn", "root": "qqa", "lookups": ["qql"]}))
    for (la, sa), (lb, sb) in itertools.permutations(steps, 2):
        yield {"family": "minor-versions", "a": la, "b": lb}, [sa, sb]


# Several minor versions of one type in ONE call, one of them edited between the calls (same file paths): a verdict remembered
# per file set / per name would survive the edit.
MINOR_EDITS = [
    "uint8 a\nuint8 b\n@extent 64\n",
    "uint8 a\n@extent 64\n",
    "uint8 a\n@extent 128\n",
    "uint8 a\n@sealed\n",
    "uint8 a\n@extent 64\n---\n@sealed\n",
    "@union\nuint8 a\nuint16 b\n@extent 64\n",
    "@deprecated\nuint8 a\n@extent 64\n",
]


def minor_version_edit_histories():
    def step(where, rev, op):
        files = {"%s/X.1.0.dsdl" % where: "uint8 a\n@extent 64\n", "%s/X.1.1.dsdl" % where: MINOR_EDITS[rev], "%s/X.1.2.dsdl" % where: "uint8 a\nuint8 b\nuint8 c\n@extent 64\n"}
        files["qqa/User.1.0.dsdl"] = "%s.X.1.0 p\n%s.X.1.1 q\n@sealed\n" % (where, where) if op != "rf-one" else "%s.X.1.1 q\n@sealed\n" % where
        st = {"files": files, "op": "rn" if op == "rn" else "rf", "root": "qqa", "lookups": ["qql"]}
        if op != "rn":
            st["targets"] = ["qqa/User.1.0.dsdl"]
        return st

    for where in ("qqa", "qql"):
        for op in ("rn", "rf", "rf-one"):
            for i, j in itertools.permutations(range(len(MINOR_EDITS)), 2):
                yield {"family": "minor-version-edits", "where": where, "op": op, "a": i, "b": j, "same_dir": True}, [step(where, i, op), step(where, j, op)]
            for i, j in ((0, 2), (1, 3), (0, 4)):
                yield {"family": "minor-version-edits", "where": where, "op": op, "a": i, "b": j, "c": i, "same_dir": True}, [step(where, i, op), step(where, j, op), step(where, i, op)]


# The SAME tree read again and again in one process (nothing changes on disk): definitions stored under the legacy extension take
# part in violations, are referred to, or are simply present
LEGACY_TREES = [
    {"qqa/X.1.0.uavcan": "uint8 a\n@sealed\n", "qqa/X.1.1.dsdl": "uint8 a\n@extent 64\n"},                      # sealing differs
    {"qqa/6200.X.1.0.uavcan": "uint8 a\n@sealed\n", "qqa/6200.Y.1.0.dsdl": "uint8 a\n@sealed\n"},              # port collision
    {"qqa/6200.X.1.0.dsdl": "uint8 a\n@sealed\n", "qqa/X.1.1.uavcan": "uint8 a\n@sealed\n"},                   # port-ID removed by the legacy file
    {"qqa/X.1.0.uavcan": "uint8 a\n@sealed\n", "qqa/User.1.0.dsdl": "X.1.0 x\n@sealed\n"},                      # valid: legacy dependency
    {"qql/X.1.0.uavcan": "uint8 a\n@sealed\n", "qqa/User.1.0.dsdl": "qql.X.1.0 x\n@sealed\n"},                  # valid: legacy dependency in a lookup root
    {"qql/X.1.0.uavcan": "uint8 a\n@sealed\n", "qql/X.1.1.uavcan": "uint16 a\n@sealed\n", "qqa/User.1.0.dsdl": "qql.X.1.0 x\nqql.X.1.1 y\n@sealed\n"},  # violation between two legacy dependencies
    {"qqa/s/Deep.1.0.uavcan": "@sealed\n", "qqa/Plain.1.0.dsdl": "@sealed\n"},                                     # valid: nested legacy file
]


def legacy_repeat_histories():
    def st(tree, op):
        d = {"files": tree, "op": op, "root": "qqa", "lookups": ["qql"]}
        if op == "rf":
            d["targets"] = [sorted(k for k in tree if k.startswith("qqa/"))[-1]]
        return d

    for i, tree in enumerate(LEGACY_TREES):
        for ops in (("rn", "rn"), ("rn", "rn", "rn"), ("rf", "rn"), ("rn", "rf"), ("rf", "rf")):
            yield {"family": "legacy-repeats", "tree": i, "ops": list(ops), "same_dir": True}, [st(tree, o) for o in ops]
    for i, j in itertools.permutations(range(len(LEGACY_TREES)), 2):
        if i < 3 or j < 3:
            yield {"family": "legacy-repeats", "tree": i, "then": j, "same_dir": True}, [st(LEGACY_TREES[i], "rn"), st(LEGACY_TREES[j], "rn"), st(LEGACY_TREES[i], "rn")]


# One list object of lookup directories handed to several calls with different roots (an application that keeps its lookup list)
def shared_argument_histories():
    files = {"qqa/A.1.0.dsdl": "uint8 a\n@sealed\n", "qqb/B.1.0.dsdl": "qqa.A.1.0 a\n@sealed\n", "qqb/C.1.0.dsdl": "qql.L.1.0 l\n@sealed\n", "qql/L.1.0.dsdl": "@sealed\n", "qqa/D.1.0.dsdl": "qqb.C.1.0 c\n@sealed\n"}
    calls = [("rn", "qqa", None), ("rn", "qqb", None), ("rf", "qqb", ["qqb/B.1.0.dsdl"]), ("rf", "qqb", ["qqb/C.1.0.dsdl"]), ("rf", "qqa", ["qqa/A.1.0.dsdl"])]
    steps = []
    for op, root, targets in calls:
        st = {"files": files, "op": op, "root": root, "lookups": ["qql"]}
        if targets:
            st["targets"] = targets
        steps.append(st)
    for i, j in itertools.permutations(range(len(steps)), 2):
        yield {"family": "shared-arguments", "a": i, "b": j, "flavour": "shared-arguments"}, [steps[i], steps[j]]
    for i, j, k in itertools.permutations(range(len(steps)), 3):
        if i < 2:
            yield {"family": "shared-arguments", "a": i, "b": j, "c": k, "flavour": "shared-arguments"}, [steps[i], steps[j], steps[k]]


# The same, with a root namespace of 70 definitions (more than any per-namespace listing cache considers "small")
def wide_revision_histories():
    def step(inner, op):
        files = {"qql/Inner.1.0.dsdl": inner}
        for i in range(70):
            files["qqa/T%02d.1.0.dsdl" % i] = ("qql.Inner.1.0 one\nuint8 COPY = qql.Inner.1.0.K\n" if i % 10 == 0 else "") + "uint8[%d] pad\n@sealed\n" % (i % 5 + 1)
        st = {"files": files, "op": op, "root": "qqa", "lookups": ["qql"]}
        if op == "rf":
            st["targets"] = ["qqa/T00.1.0.dsdl", "qqa/T69.1.0.dsdl"]
        return st

    revs = [INNER[0], INNER[1], INNER[5], INNER[3]]
    for op in ("rn", "rf"):
        for i, j in itertools.permutations(range(len(revs)), 2):
            yield {"family": "wide-revisions", "op": op, "a": i, "b": j}, [step(revs[i], op), step(revs[j], op)]


FAMILIES = {
    "wide-revisions": wide_revision_histories,
    "shared-arguments": shared_argument_histories,
    "minor-versions": minor_version_histories,
    "doc-faults": doc_fault_histories,
    "legacy-repeats": legacy_repeat_histories,
    "minor-version-edits": minor_version_edit_histories,
    "nested-revisions": nested_revision_histories,
    "faults": fault_histories,
    "flags": flag_histories,
    "delimited-revisions": delimited_revision_histories,
}
_registry: dict = {}


def histories(family: str):
    """[(label, steps)] of a family, memoised; labels are JSON-able and identify the history in replay files."""
    if family not in _registry:
        _registry[family] = list(FAMILIES[family]())
    return _registry[family]


def steps_of(label: dict):
    for l, steps in histories(label["family"]):
        if l == label:
            return steps
    raise KeyError(label)


_solo_cache: dict = {}


def solo_cached(step):
    k = engine.canon(step)
    if k not in _solo_cache:
        _solo_cache[k] = solo(step)[0]
    return _solo_cache[k]


def check_history(label: dict, R, project, fingerprint: str, clause: str, flavours=("two-dirs", "edited")) -> None:
    """Every step of the history, under every flavour, must give project(outcome) == project(solo outcome of that step)."""
    steps = steps_of(label)
    if "same_dir" in label:
        flavours = ("edited",) if label["same_dir"] else ("two-dirs",)
    if "flavour" in label:
        flavours = (label["flavour"],)
    for fl in flavours:
        outs = run_history(steps, fl)
        for k, (o, _r) in enumerate(outs):
            R.transitions += 1
            exp = project(solo_cached(steps[k]))
            got = project(o)
            R.case([label, fl, k], nontrivial=k >= 1, sample=(k == 1 and fl == "edited" and len(R.samples) < 2))
            if got != exp:
                R.outcome("history-dependent")
                R.violation("%s:%s:%s" % (fingerprint, label["family"], "same-directory-edited" if fl == "edited" else "another-directory"), clause + " - also when earlier calls of the same process read other definitions with the same names", {"kind": "call-history", "label": label, "flavour": fl, "step": k}, observed=_brief(got), expected=_brief(exp))
                break
        else:
            R.outcome("history-independent")
        R.traces += 1


def _brief(x):
    s = json.dumps(x, sort_keys=True, default=engine._json_default)
    return s if len(s) < 1500 else s[:1500] + "..."


# ------------------------------------------------------------------------------------------------ projections
def project_full(o):
    return o


def project_verdict(o):
    return "accepted" if "ok" in o else ("rejected" if o["error"][3] else "crashed:" + o["error"][0])


def project_error_location(o):
    return {"error": o.get("error"), "prints": o["prints"]}


def _walk_constants(d, out):
    if isinstance(d, dict):
        if d.get("kind") == "Constant":
            out.append([d["name"], d["type"]["str"], d["value"]])
        for v in d.values():
            _walk_constants(v, out)
    elif isinstance(d, list):
        for v in d:
            _walk_constants(v, out)


def project_constants(o):
    if "ok" not in o:
        return {"error": o["error"][0]}
    out: list = []
    _walk_constants(o["ok"], out)
    return out


def _walk_capacities(d, out):
    if isinstance(d, dict):
        if "capacity" in d:
            out.append([d.get("str"), d["capacity"]])
        for v in d.values():
            _walk_capacities(v, out)
    elif isinstance(d, list):
        for v in d:
            _walk_capacities(v, out)


def project_expressions(o):
    """Everything computed by constant expressions: constant values, array capacities, printed values."""
    if "ok" not in o:
        return {"error": o["error"][0]}
    c: list = []
    _walk_constants(o["ok"], c)
    k: list = []
    _walk_capacities(o["ok"], k)
    return {"constants": c, "capacities": k, "prints": [p[2] for p in o["prints"]]}


# ------------------------------------------------------------------------------------------------ glue for check modules
def plan_shards(families, parts: int = 4) -> list:
    return [{"kind": "call-histories", "family": f, "part": p, "parts": parts} for f in families for p in range(parts)]


def cases_of(shard):
    for i, (label, _steps) in enumerate(histories(shard["family"])):
        if i % shard["parts"] == shard["part"]:
            yield {"kind": "call-history", "label": label}


# ------------------------------------------------------------------------------------------------ probes on the returned type objects
def sample_value(t, salt: int = 0):
    """A deterministic non-default value valid for the pydsdl type t (used to probe serialize on types returned by a call)."""
    if isinstance(t, pydsdl.BooleanType):
        return salt % 2 == 0
    if isinstance(t, pydsdl.FloatType):
        return 1.5 + salt
    if isinstance(t, pydsdl.UnsignedIntegerType):
        return ((1 << t.bit_length) - 1 - salt) % (1 << t.bit_length)
    if isinstance(t, pydsdl.SignedIntegerType):
        return -(1 << (t.bit_length - 1)) + salt
    if isinstance(t, pydsdl.VoidType):
        return None
    if isinstance(t, pydsdl.ArrayType):
        n = t.capacity if isinstance(t, pydsdl.FixedLengthArrayType) else min(t.capacity, 2)
        if isinstance(t.element_type, pydsdl.UTF8Type):
            return "ab"[:n]
        if isinstance(t.element_type, pydsdl.ByteType):
            return bytes([0xA5, 0x5A, 0xFF][:n])
        return [sample_value(t.element_type, salt + i) for i in range(n)]
    if isinstance(t, pydsdl.DelimitedType):
        return sample_value(t.inner_type, salt)
    if isinstance(t, pydsdl.UnionType):
        f = t.fields[salt % len(t.fields)]
        return {f.name: sample_value(f.data_type, salt)}
    if isinstance(t, pydsdl.StructureType):
        return {f.name: sample_value(f.data_type, salt + i) for i, f in enumerate(t.fields_except_padding)}
    raise TypeError(t)


PROBE_BYTES = [b"", b"\x00", b"\x01", b"\xff", b"\x01\x02\x03\x04", b"\xff" * 6, b"\x02\x00\x00\x00\x11\x22\x33\x44\x55", b"\x01\x00\x00\x00\xaa\xbb\xcc\xdd\xee\xff\x01\x02", bytes(range(1, 24)), b"\x80\x7f" * 8]


def probe_codec(types) -> list:
    """Observation of serialize / deserialize on the composite types a call returned (services: their two parts)."""
    from pydsdl import _serdes

    out = []
    flat = []
    for t in types or []:
        flat += [t.request_type, t.response_type] if isinstance(t, pydsdl.ServiceType) else [t]
    for t in flat:
        row = {"type": re.sub(r"(qq[abl])\d+x\d+", r"\1", str(t)), "ser": [], "de": []}
        for salt in (0, 1, 2):
            try:
                v = sample_value(t, salt)
                b = pydsdl.serialize(t, v)
                row["ser"].append([repr(v), b.hex(), repr(pydsdl.deserialize(t, b))])
            except Exception as ex:  # noqa
                row["ser"].append(["raised", type(ex).__name__, str(ex)[:80]])
        for b in PROBE_BYTES:
            try:
                row["de"].append(repr(pydsdl.deserialize(t, b)))
            except (_serdes.SerDesError, ValueError) as ex:
                row["de"].append("rejected:" + type(ex).__name__)
            except Exception as ex:  # noqa
                row["de"].append("foreign:" + type(ex).__name__)
        out.append(row)
    return out


def check_history_codec(label: dict, R, fingerprint: str, clause: str, flavours=("two-dirs", "edited")) -> None:
    """As check_history, but the observation is what serialize / deserialize do with the RETURNED type objects."""
    steps = steps_of(label)
    solos = []
    for st in steps:
        o, r, b = run_step(st, _fresh_suffix(), raw=True)
        solos.append(probe_codec(r))
        ws.remove(b)
    for fl in flavours:
        suffix_outs = run_history(steps, fl, raw=True)
        for k, (o, r) in enumerate(suffix_outs):
            R.transitions += 1
            got = probe_codec(r)
            R.case([label, fl, k, "codec"], nontrivial=k >= 1, sample=False)
            if got != solos[k]:
                R.outcome("history-dependent")
                bad = next((i for i in range(min(len(got), len(solos[k]))) if got[i] != solos[k][i]), 0)
                R.violation("%s:%s:%s" % (fingerprint, label["family"], "same-directory-edited" if fl == "edited" else "another-directory"), clause + " - also when earlier calls of the same process read other definitions with the same names", {"kind": "call-history", "label": label, "flavour": fl, "step": k}, observed=_brief(got[bad] if bad < len(got) else got), expected=_brief(solos[k][bad] if bad < len(solos[k]) else solos[k]))
                break
        else:
            R.outcome("history-independent")
        R.traces += 1
