"""
Abstract type descriptions (JSON-able) and their realisation through the PUBLIC pydsdl constructors and as DSDL text.

desc := ["bool"] | ["uint", n, "s"|"t"] | ["int", n] | ["float", n, "s"|"t"] | ["void", n] | ["byte"] | ["utf8"]
      | ["farr", desc, n] | ["varr", desc, n]
      | ["struct", [desc...]] | ["union", [desc...]] | ["delim", struct-or-union desc, extent_bits]

Field names are positional: f0, f1, ... (void fields are padding and unnamed).
"""
from __future__ import annotations

import hashlib
import itertools
import json
from pathlib import Path

import pydsdl

S, T = pydsdl.PrimitiveType.CastMode.SATURATED, pydsdl.PrimitiveType.CastMode.TRUNCATED
NS_DIR = Path("/nonexistent/vns")  # source paths of API-built composites; never touched on disk


def key(desc) -> str:
    return json.dumps(desc, separators=(",", ":"))


NAME_OVERRIDES: dict = {}  # key(desc) -> (short name, (major, minor)); consulted by build() only (API-built types)


def type_name(desc) -> str:
    return "X" + hashlib.blake2b(key(desc).encode(), digest_size=5).hexdigest()


def _name_version(desc):
    ov = NAME_OVERRIDES.get(key(desc))
    return ov if ov is not None else (type_name(desc), (1, 0))


def is_composite(desc) -> bool:
    return desc[0] in ("struct", "union", "delim")


def field_name(i: int) -> str:
    return "f%d" % i


def _as_argument(attrs: list, desc):
    """The `attributes` parameter is an Iterable: every third description (by a hash of the description, so the choice is a
    function of the case) hands it over as a one-shot iterator, every third as a generator, the others as the list itself."""
    import zlib

    sel = zlib.crc32(key(desc).encode()) % 3
    if sel == 1:
        return iter(list(attrs))
    if sel == 2:
        return (a for a in list(attrs))
    return attrs


def _spoil(attrs: list) -> None:
    """The caller's list of attributes is the CALLER's: a type model object is a value and keeps no alias of it.  Every composite the
    checks build is followed by this caller-side modification of the list that was handed to the constructor."""
    attrs.reverse()
    attrs.append(pydsdl.Field(pydsdl.BooleanType(), "intruder_appended_by_the_caller"))
    if len(attrs) > 2:
        del attrs[1]


def spoil_accessors(t, depth: int = 0) -> None:
    """Caller-side modification of every list a public accessor of a model object hands out, recursively through nested types."""
    if depth > 6:
        return
    if isinstance(t, pydsdl.ServiceType):
        spoil_accessors(t.request_type, depth + 1)
        spoil_accessors(t.response_type, depth + 1)
        return
    if isinstance(t, pydsdl.ArrayType):
        spoil_accessors(t.element_type, depth + 1)
        return
    if not isinstance(t, pydsdl.CompositeType):
        return
    nested = [a.data_type for a in t.attributes]
    for obj in (t, t.inner_type):
        for acc in ("attributes", "fields", "fields_except_padding", "constants", "name_components"):
            v = getattr(obj, acc, None)
            if isinstance(v, list):
                v.reverse()
                v.append(None)
                if len(v) > 2:
                    del v[1]
    for n in nested:
        spoil_accessors(n, depth + 1)


# Types whose bit length sets DIFFER but agree in min, max and residues modulo 32 - the approximate BitLengthSet equality / hash cannot
# tell them apart, so anything keyed by it (de-duplication, caches) confuses them.  Each group lists such types.
COLLIDERS = [
    [["varr", ["uint", 32, "s"], 2], ["varr", ["uint", 64, "s"], 1]],  # {8,40,72} / {8,72}
    [["varr", ["uint", 32, "s"], 4], ["varr", ["uint", 64, "s"], 2], ["varr", ["farr", ["uint", 32, "s"], 4], 1]],  # {8,40,..,136} / {8,72,136} / {8,136}
    [["struct", [["varr", ["uint", 32, "s"], 2], ["uint", 8, "s"]]], ["struct", [["varr", ["uint", 64, "s"], 1], ["uint", 8, "s"]]]],  # {16,48,80} / {16,80}
    [["union", [["uint", 8, "s"], ["uint", 40, "s"], ["farr", ["uint", 8, "s"], 9]]], ["union", [["uint", 8, "s"], ["farr", ["uint", 8, "s"], 9]]]],  # {16,48,80} / {16,80}
]


def build_named(desc, name: str, version=(1, 0)) -> pydsdl.CompositeType:
    """A composite built under an explicitly given short name / version (used to make distinct types share a name)."""
    assert desc[0] in ("struct", "union", "delim")
    inner_desc = desc[1] if desc[0] == "delim" else desc
    cache: dict = {}
    attrs = []
    for i, f in enumerate(inner_desc[1]):
        ft = build(f, cache)
        attrs.append(pydsdl.PaddingField(ft) if f[0] == "void" else pydsdl.Field(ft, field_name(i)))
    cls = pydsdl.StructureType if inner_desc[0] == "struct" else pydsdl.UnionType
    inner = cls(
        name="vns." + name,
        version=pydsdl.Version(*version),
        attributes=attrs,
        deprecated=False,
        fixed_port_id=None,
        source_file_path=NS_DIR / ("%s.%d.%d.dsdl" % (name, version[0], version[1])),
        has_parent_service=False,
    )
    _spoil(attrs)
    return pydsdl.DelimitedType(inner, desc[2]) if desc[0] == "delim" else inner


def build(desc, cache: dict | None = None) -> pydsdl.SerializableType:
    """Realise a description with the public constructors. Nested composites are shared through `cache`."""
    if cache is None:
        cache = {}
    k = desc[0]
    if k == "bool":
        return pydsdl.BooleanType()
    if k == "uint":
        return pydsdl.UnsignedIntegerType(desc[1], S if desc[2] == "s" else T)
    if k == "int":
        return pydsdl.SignedIntegerType(desc[1], S)
    if k == "float":
        return pydsdl.FloatType(desc[1], S if desc[2] == "s" else T)
    if k == "void":
        return pydsdl.VoidType(desc[1])
    if k == "byte":
        return pydsdl.ByteType()
    if k == "utf8":
        return pydsdl.UTF8Type()
    if k == "farr":
        return pydsdl.FixedLengthArrayType(build(desc[1], cache), desc[2])
    if k == "varr":
        return pydsdl.VariableLengthArrayType(build(desc[1], cache), desc[2])
    ck = key(desc)
    if ck in cache:
        return cache[ck]
    if k in ("struct", "union"):
        attrs = []
        for i, f in enumerate(desc[1]):
            ft = build(f, cache)
            if f[0] == "void":
                attrs.append(pydsdl.PaddingField(ft))
            else:
                attrs.append(pydsdl.Field(ft, field_name(i)))
        cls = pydsdl.StructureType if k == "struct" else pydsdl.UnionType
        name, ver = _name_version(desc)
        out = cls(
            name="vns." + name,
            version=pydsdl.Version(*ver),
            attributes=_as_argument(attrs, desc),
            deprecated=False,
            fixed_port_id=None,
            source_file_path=NS_DIR / ("%s.%d.%d.dsdl" % (name, ver[0], ver[1])),
            has_parent_service=False,
        )
        _spoil(attrs)
    elif k == "delim":
        inner_desc = desc[1]
        # the inner object must carry the name of the delimited type itself
        attrs = []
        for i, f in enumerate(inner_desc[1]):
            ft = build(f, cache)
            attrs.append(pydsdl.PaddingField(ft) if f[0] == "void" else pydsdl.Field(ft, field_name(i)))
        cls = pydsdl.StructureType if inner_desc[0] == "struct" else pydsdl.UnionType
        name, ver = _name_version(desc)
        inner = cls(
            name="vns." + name,
            version=pydsdl.Version(*ver),
            attributes=_as_argument(attrs, desc),
            deprecated=False,
            fixed_port_id=None,
            source_file_path=NS_DIR / ("%s.%d.%d.dsdl" % (name, ver[0], ver[1])),
            has_parent_service=False,
        )
        _spoil(attrs)
        out = pydsdl.DelimitedType(inner, desc[2])
    else:
        raise ValueError(desc)
    cache[ck] = out
    return out


# ------------------------------------------------------------------------------------------------ DSDL text form
def type_expr(desc) -> str:
    k = desc[0]
    if k == "bool":
        return "bool"
    if k == "uint":
        return ("truncated " if desc[2] == "t" else "") + "uint%d" % desc[1]
    if k == "int":
        return "int%d" % desc[1]
    if k == "float":
        return ("truncated " if desc[2] == "t" else "") + "float%d" % desc[1]
    if k == "void":
        return "void%d" % desc[1]
    if k in ("byte", "utf8"):
        return k
    if k == "farr":
        return "%s[%d]" % (type_expr(desc[1]), desc[2])
    if k == "varr":
        return "%s[<=%d]" % (type_expr(desc[1]), desc[2])
    return "vns.%s.1.0" % type_name(desc)


def normalized(desc) -> str:
    """The normalized string form pydsdl must produce for this type."""
    k = desc[0]
    if k == "bool":
        return "bool"
    if k == "uint":
        return ("truncated" if desc[2] == "t" else "saturated") + " uint%d" % desc[1]
    if k == "int":
        return "saturated int%d" % desc[1]
    if k == "float":
        return ("truncated" if desc[2] == "t" else "saturated") + " float%d" % desc[1]
    if k == "void":
        return "void%d" % desc[1]
    if k in ("byte", "utf8"):
        return k
    if k == "farr":
        return "%s[%d]" % (normalized(desc[1]), desc[2])
    if k == "varr":
        return "%s[<=%d]" % (normalized(desc[1]), desc[2])
    return "vns.%s.1.0" % type_name(desc)


def to_files(desc, files: dict | None = None) -> dict:
    """DSDL source files (relative to a directory that contains the root namespace `vns`) defining desc and its deps."""
    if files is None:
        files = {}
    k = desc[0]
    if k in ("farr", "varr"):
        to_files(desc[1], files)
        return files
    if not is_composite(desc):
        return files
    inner = desc[1] if k == "delim" else desc
    lines = []
    if inner[0] == "union":
        lines.append("@union")
    for i, f in enumerate(inner[1]):
        to_files(f, files)
        lines.append(type_expr(f) if f[0] == "void" else "%s %s" % (type_expr(f), field_name(i)))
    lines.append("@extent %d" % desc[2] if k == "delim" else "@sealed")
    files["vns/%s.1.0.dsdl" % type_name(desc)] = "\n".join(lines) + "\n"
    return files


# ------------------------------------------------------------------------------------------------ alphabets
W_QUICK = [1, 2, 3, 7, 8, 9, 16, 17, 33, 64]
W_THOROUGH = list(range(1, 65))


def scalars(widths) -> list:
    out = [["bool"]]
    for n in widths:
        out.append(["uint", n, "s"])
        out.append(["uint", n, "t"])
        if n >= 2:
            out.append(["int", n])
    for n in (16, 32, 64):
        out += [["float", n, "s"], ["float", n, "t"]]
    return out


LEAF7 = [["bool"], ["uint", 3, "s"], ["uint", 8, "s"], ["int", 16], ["uint", 17, "t"], ["float", 32, "s"], ["void", 5]]
ARR5 = [["farr", ["uint", 3, "s"], 2], ["varr", ["uint", 8, "s"], 2], ["varr", ["bool"], 3], ["varr", ["utf8"], 2], ["farr", ["byte"], 2]]
F1 = LEAF7 + ARR5


def arrays_over(elems, fixed=(1, 2, 3), var=(1, 2, 3)) -> list:
    out = []
    for e in elems:
        if e[0] == "void":
            continue
        for n in fixed:
            if e[0] != "utf8":
                out.append(["farr", e, n])
        for n in var:
            out.append(["varr", e, n])
    return out


def structs(alphabet, max_fields: int, min_fields: int = 0):
    for n in range(min_fields, max_fields + 1):
        for fs in itertools.product(alphabet, repeat=n):
            yield ["struct", list(fs)]


def unions(alphabet, max_variants: int = 3):
    alpha = [a for a in alphabet if a[0] != "void"]
    for n in range(2, max_variants + 1):
        for fs in itertools.product(alpha, repeat=n):
            yield ["union", list(fs)]


def delimited_variants(inner, inner_max_bits: int):
    """extent in {min, min+8, min+64} where min is the inner type's longest representation (byte padded)."""
    base = -(-inner_max_bits // 8) * 8
    for add in (0, 8, 64):
        yield ["delim", inner, base + add]


# ------------------------------------------------------------------------------------------------ beyond "three of everything"
MEDIUM_COUNTS = [4, 5, 6, 8, 9, 16, 17, 20, 24, 33]
MEDIUM_CAPS = [4, 5, 7, 8, 9, 15, 16, 17, 31, 32, 33, 63, 64, 65, 100, 127, 128, 129, 1000]


def medium(tier: str = "quick", max_cap: int = 10**9):
    """
    Types with MORE than three of everything (fields, variants, elements, nesting levels), in a fixed systematic pattern (no sampling):
    field i of an n-field composite is F1[(start + i * step) % len(F1)]; capacities around every power of two up to 128 and 100 / 1000;
    wrapper chains of depth 4..6 that alternate structure / union / delimited / array.
    """
    al = [f for f in F1] + [["struct", [["bool"]]], ["varr", ["struct", [["uint", 8, "s"]]], 2]]  # incl. composite (byte-aligned) fields
    steps = (1, 5) if tier == "quick" else (1, 5, 7)
    starts = range(0, len(al), 3) if tier == "quick" else range(len(al))
    for n in MEDIUM_COUNTS:
        for start in starts:
            for step in steps:
                fs = [al[(start + i * step) % len(al)] for i in range(n)]
                yield ["struct", fs]
                vs = [f for f in fs if f[0] != "void"]
                if len(vs) >= 2:
                    yield ["union", vs]
        yield ["struct", [["uint", 3, "s"]] * n]
        yield ["union", [["varr", ["bool"], 3]] * n]
    elems = [["bool"], ["uint", 3, "s"], ["uint", 8, "s"], ["uint", 17, "t"], ["struct", [["bool"], ["uint", 8, "s"]]], ["varr", ["uint", 8, "s"], 2]]
    for e in elems:
        for c in MEDIUM_CAPS:
            if c > max_cap or (tier == "quick" and c > 129 and e[0] not in ("bool", "uint")):
                continue
            yield ["struct", [["bool"], ["farr", e, c], ["uint", 3, "s"]]]
            yield ["struct", [["uint", 3, "s"], ["varr", e, c]]]
    # chains: depth 4, 5, 6
    for depth in (4, 5, 6):
        for leaf in (["uint", 3, "s"], ["varr", ["bool"], 3]):
            for phase in range(4):
                x = leaf
                for lvl in range(depth):
                    k = (lvl + phase) % 4
                    if k == 0:
                        x = ["struct", [["bool"], x]]
                    elif k == 1:
                        x = ["union", [x, ["uint", 8, "s"]]]
                    elif k == 2:
                        inner = ["struct", [x, ["uint", 3, "s"]]]
                        x = ["delim", inner, -(-_tmax(inner) // 8) * 8 + 8]
                    else:
                        x = ["struct", [["varr", x, 2]]] if x[0] in ("struct", "union", "delim") else ["struct", [["farr", x, 2]]]
                yield x if is_composite(x) else ["struct", [x]]


def has_array_of_arrays(desc) -> bool:
    """Arrays of arrays exist in the type model (constructors) but cannot be written in DSDL text."""
    k = desc[0]
    if k in ("farr", "varr"):
        return desc[1][0] in ("farr", "varr") or has_array_of_arrays(desc[1])
    if k in ("struct", "union"):
        return any(has_array_of_arrays(f) for f in desc[1])
    if k == "delim":
        return has_array_of_arrays(desc[1])
    return False


def _tmax(desc) -> int:
    from ..ref import layout as L

    return L.tmax(desc)
