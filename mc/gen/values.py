"""
Value alphabets V(type) for the codec checks (C06 C07 C08 C14): boundary and out-of-range numbers, special floats,
empty/one/full arrays, every union variant, structures as (capped) products of their field alphabets.
All enumerations are in a fixed canonical order (simplest first); nothing is sampled.
"""
from __future__ import annotations

import itertools
import math

from ..ref import codec as C

FLOATS_COMMON = [0.0, -0.0, 1.0, -2.5, 0.1, float("nan"), float("inf"), float("-inf")]
FLOATS_BY_WIDTH = {
    16: [65504.0, 65519.99, 65520.0, 131008.0, -65520.0, 5.960464477539063e-08, 2.9e-08, 3.0e-08, 6.097555160522461e-05, 1e-10, 2**2000, -(2**2000), 3],
    32: [3.4028234663852886e38, 3.4028235677973362e38, 3.4028235677973366e38, 6.8e38, -3.5e38, 1.401298464324817e-45, 7e-46, 7.1e-46, 1e-50, 2**2000, -(2**2000), 3],
    64: [1.7976931348623157e308, 5e-324, 2.2250738585072014e-308, 2**2000, -(2**2000), 3, 2**53 + 1],
}


def scalar_values(desc, small: bool = False) -> list:
    k = desc[0]
    if k == "bool":
        return [False, True] if small else [False, True, 2]
    if k in ("uint", "int"):
        lo, hi = C.int_range(desc)
        vs = [0, 1, hi, lo, -1, hi + 1, lo - 1]
        if not small:
            vs += [hi - 1, (1 << 64) + 5, True]
            # integral-valued floats (exactly representable): in range, at / just beyond the range ends (float(hi) of a wide type
            # rounds UP to hi + 1), and far outside
            vs += [3.0, float(hi), float(lo), float(hi) * 2.0, -float(hi) * 2.0 - 2.0, 1e19, 1e20, -1e19, 2.0**53 + 2.0, float(2**200)]
        out = []
        for v in vs:
            if not any(type(v) == type(o) and v == o for o in out):
                out.append(v)
        return out
    if k in ("byte", "utf8"):
        return [0, 1, 255]
    if k == "float":
        vs = FLOATS_COMMON + FLOATS_BY_WIDTH[desc[1]]
        return vs[:6] + vs[8:11] if small else vs
    raise ValueError(desc)


def values(desc, cap: int = 24, small: bool = False) -> list:
    k = desc[0]
    if k in ("bool", "uint", "int", "float"):
        return scalar_values(desc, small)
    if k in ("farr", "varr"):
        e, n = desc[1], desc[2]
        if e[0] == "utf8":
            # texts that are NOT in a Unicode normal form are values like any other: decomposed e + acute, ANGSTROM SIGN (its NFC form
            # is shorter), DEVANAGARI QA (its NFC form is longer), and the same as bytes
            cands = ["", "a", "é", "aé", "€", "z" * n, b"ab"[:n], "e\u0301", "\u212b", "\u0958", "e\u0301".encode()]
            if n >= 8:  # long texts: multi-byte characters at the very end / throughout
                cands += ["a" * (n - 2) + "é", "a" * (n - 3) + "€", "é" * (n // 2), "a" * (n - 4) + "\U0001f600", "b" * (n - 1)]
            return [c for c in cands if len(c.encode("utf-8") if isinstance(c, str) else c) <= n and (k == "varr")][:cap]
        if e[0] == "byte":
            if k == "farr":
                return [bytes(n), bytes([255] * n), list(range(1, n + 1)), "a" * n][:cap]
            return [b"", b"\x00", bytes([255] * n), [7] * min(n, 2), "a" * min(n, 1)][:cap]
        ev = values(e, cap=6, small=True)
        lens = [n] if k == "farr" else sorted({0, 1, n})
        out = []
        for L in lens:
            if L == 0:
                out.append([])
                continue
            pats = [[ev[0]] * L, [ev[-1]] * L, [ev[i % len(ev)] for i in range(L)], [ev[(i + 1) % len(ev)] for i in range(L)]]
            for p in pats:
                if not any(C.same(p, o) if isinstance(o, list) else False for o in out) and p not in out:
                    out.append(p)
        return out[:cap]
    if k == "struct":
        names = [("f%d" % i, f) for i, f in enumerate(desc[1]) if f[0] != "void"]
        # a single-field structure carries the FULL alphabet of its field (the scalar wrappers of the codec checks); wider
        # structures use the small per-field alphabets so that the product stays enumerable
        alphas = [values(f, cap=8 if len(names) > 1 else cap, small=(small or len(names) > 1)) for _n, f in names]
        total = math.prod(len(a) for a in alphas) if alphas else 1
        out = []
        if total <= cap:
            for combo in itertools.product(*alphas):
                out.append({n: v for (n, _f), v in zip(names, combo)})
        else:
            # one-at-a-time variation around the base point, then the all-last point (stated as a cap in the evidence)
            base = [a[0] for a in alphas]
            out.append({n: v for (n, _f), v in zip(names, base)})
            for i, a in enumerate(alphas):
                for v in a[1:]:
                    c = list(base)
                    c[i] = v
                    out.append({n: x for (n, _f), x in zip(names, c)})
                    if len(out) >= cap - 1:
                        break
                if len(out) >= cap - 1:
                    break
            out.append({n: a[-1] for (n, _f), a in zip(names, alphas)})
        # omitted fields: defaults
        if names:
            first = dict(out[0])
            for n, _f in names[:3]:
                d = dict(out[-1])
                d.pop(n, None)
                out.append(d)
            out.append({})
        return out[: cap + 5]
    if k == "union":
        out = []
        per = max(2, cap // len(desc[1]))
        for i, f in enumerate(desc[1]):
            for v in values(f, cap=per, small=True)[:per]:
                out.append({"f%d" % i: v})
        return out
    if k == "delim":
        return values(desc[1], cap, small)
    raise ValueError(desc)


def relax(desc, v):
    """The relaxed spelling of a strict value: positional structures, bare value for single-field structures."""
    k = desc[0]
    if k == "delim":
        return relax(desc[1], v)
    if k == "struct":
        named = [(i, f) for i, f in enumerate(desc[1]) if f[0] != "void"]
        if not isinstance(v, dict):
            return v
        if len(named) == 1:
            n = "f%d" % named[0][0]
            if n in v:
                inner = relax(named[0][1], v[n])
                if isinstance(inner, dict) and (n in inner or not inner):
                    return {n: inner}  # the bare form would be ambiguous with the explicit form
                return inner
            return v
        # positional: only a prefix of the fields can be given positionally
        seq = []
        for i, f in named:
            n = "f%d" % i
            if n not in v:
                break
            seq.append(relax(f, v[n]))
        if len(seq) == len([1 for i, f in named if ("f%d" % i) in v]):
            return seq
        return {n: relax(desc[1][int(n[1:])], x) for n, x in v.items()}
    if k == "union":
        (n, x), = v.items()
        return {n: relax(desc[1][int(n[1:])], x)}
    if k in ("farr", "varr") and isinstance(v, list):
        return [relax(desc[1], x) for x in v]
    return v
