"""
Inputs beyond "three of everything": large files whose interesting bytes sit exactly on block boundaries, wide namespaces,
long dependency chains, many distinct items in one process.  Everything is built systematically (no sampling); every
generator returns the input together with what a correct reader must report for it.
"""
from __future__ import annotations

BOUNDARIES = [4096, 8192, 16384, 32768, 65536, 131072]


def _filler(i: int, n: int) -> str:
    s = "# filler line %06d " % i
    return s + "." * (n - len(s))


def straddling_text(boundary: int, what: str, tail: list[str], eol: str = "\r\n"):
    """
    A definition text whose byte number `boundary` (counted from 0, in the UTF-8 file) is the SECOND byte of
      what = 'crlf'    : a CR LF line ending (CR is the last byte of the preceding block),
      what = 'utf8-2/3/4': a 2 / 3 / 4-byte character inside a comment,
      what = 'cr'      : a lone CR line ending directly followed by a statement (only with eol='\\r').
    `tail` are the statement lines placed after the boundary.  Returns (text, number of the first tail line (1-based)).
    The text starts with `@sealed`-free filler comments only, so the caller's tail decides validity.
    """
    e = len(eol.encode())
    lines = []
    width = 64 - e  # every filler line occupies 64 bytes including its line ending
    off = 0
    i = 0
    while off + 2 * 64 <= boundary:
        lines.append(_filler(i, width))
        off += 64
        i += 1
    rest = boundary - off  # 64 <= rest < 128 bytes remain before the boundary
    if what in ("crlf", "cr"):
        # the line ending starts at boundary - 1 (crlf: CR at boundary-1, LF at boundary; cr: CR at boundary-1, next line at boundary)
        need = rest - 1
        lines.append(_filler(i, need))
    else:
        n = int(what.split("-")[1])
        ch = {2: "µ", 3: "€", 4: "\U0001f600"}[n]
        # the character starts at boundary - 1
        lines.append(_filler(i, rest - 1) + ch + " after")
    # the comment block CONTINUES after the boundary: an extra (empty) line conjured up at the boundary would split it
    for j in range(3):
        lines.append(_filler(i + 1 + j, width))
    text = eol.join(lines) + eol
    first_tail = len(lines) + 1
    text += eol.join(tail) + eol
    data = text.encode("utf-8")
    if what == "crlf":
        assert data[boundary - 1 : boundary + 1] == b"\r\n", (boundary, data[boundary - 2 : boundary + 2])
    elif what == "cr":
        assert data[boundary - 1 : boundary] == b"\r" and eol == "\r"
    else:
        assert data[boundary - 1] >= 0xC0 and data[boundary] & 0xC0 == 0x80, (what, data[boundary - 2 : boundary + 3])
    return text, first_tail


def wide_namespace(n: int, legacy_every: int = 0, root: str = "wns"):
    """
    n definitions `root.T000 ... T<n-1>`; T000 carries a @print and is referenced by T001, by the middle one and by the last one;
    every 7th definition references its predecessor; with legacy_every > 0 every legacy_every-th file uses the .uavcan extension.
    Returns (files, names in the order read_namespace must return them, {file: [line, text]} of the @print directives).
    """
    files = {}
    names = []
    prints = {}
    for i in range(n):
        name = "T%03d" % i
        ext = "uavcan" if legacy_every and i % legacy_every == legacy_every - 1 else "dsdl"
        lines = ["# %s" % name]
        if i == 0:
            lines += ["uint8 leaf", "@print 1000"]
            prints["%s/%s.1.0.%s" % (root, name, ext)] = [3, "1000"]
        if i in (1, n // 2, n - 1) and i != 0:
            lines.append("T000.1.0 first")
        if i % 7 == 6:
            lines.append("T%03d.1.0 prev" % (i - 1))
        lines.append("uint8[%d] pad" % (i % 5 + 1))
        lines.append("@sealed")
        files["%s/%s.1.0.%s" % (root, name, ext)] = "\n".join(lines) + "\n"
        names.append("%s.%s.1.0" % (root, name))
    return files, names, prints


def chain_namespace(n: int, root: str = "cns"):
    """C000 -> C001 -> ... -> C<n-1> (each holds the next as a field); the last one carries a @print."""
    files = {}
    for i in range(n):
        lines = []
        if i + 1 < n:
            lines.append("C%03d.1.0 next" % (i + 1))
        else:
            lines.append("@print 4242")
        lines += ["uint8 v", "@sealed"]
        files["%s/C%03d.1.0.dsdl" % (root, i)] = "\n".join(lines) + "\n"
    return files, ["%s.C%03d.1.0" % (root, i) for i in range(n)], {"%s/C%03d.1.0.dsdl" % (root, n - 1): [1, "4242"]}
