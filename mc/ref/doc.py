"""
Reference model "what a definition text means", stated on ABSTRACT LINES (not on text):

  line := {"stmt": None | ["field", type_str, name] | ["pad", type_str] | ["const", type_str, name, value]
                         | ["dir", name, arg_text|None] | ["marker"],
           "comment": None | str}              # the comment text after '#', verbatim

Convention (Specification section on comments as exemplified by the repository's own _unittest_comments, and the
statement of C03):
  * the comment-only lines at the very top of a schema section are the section's header doc;
  * the doc of an attribute is its same-line trailing comment followed by the comment-only lines that follow it
    IMMEDIATELY (no empty line, no other statement in between);
  * every other comment is dropped;
  * a comment's text is what follows '#', with exactly one leading blank removed if there is one;
  * every field / padding / constant statement appears exactly once, fields+paddings in source order, constants in
    source order; @union/@deprecated/@sealed/@extent and the `---` marker determine kind and flags.
The model is a function of the abstract line list only - i.e. by construction independent of end-of-line style,
of the presence of the final newline, of blanks between tokens and of trailing blanks.
"""
from __future__ import annotations


def strip_comment(c: str) -> str:
    return c[1:] if c.startswith(" ") else c


def expected_model(lines: list[dict]) -> dict:
    sections: list[list[tuple[int, dict]]] = [[]]
    for no, ln in enumerate(lines, start=1):
        if ln["stmt"] is not None and ln["stmt"][0] == "marker":
            sections.append([])
            continue
        sections[-1].append((no, ln))
    deprecated = any(ln["stmt"] is not None and ln["stmt"][0] == "dir" and ln["stmt"][1] == "deprecated" for ln in lines)
    out_sections = []
    prints = []
    for sec in sections:
        # header: leading comment-only lines
        hdr = []
        i = 0
        while i < len(sec) and sec[i][1]["stmt"] is None and sec[i][1]["comment"] is not None:
            hdr.append(strip_comment(sec[i][1]["comment"]))
            i += 1
        s = {"doc": "\n".join(hdr), "union": False, "sealed": None, "extent": None, "fields": [], "constants": []}
        for j, (no, ln) in enumerate(sec):
            st = ln["stmt"]
            if st is None:
                continue
            if st[0] == "dir":
                if st[1] == "union":
                    s["union"] = True
                elif st[1] == "sealed":
                    s["sealed"] = True
                elif st[1] == "extent":
                    s["sealed"] = False
                    s["extent"] = int(st[3])
                elif st[1] == "print":
                    prints.append([no, str(st[3])])
                continue
            doc = []
            if ln["comment"] is not None:
                doc.append(strip_comment(ln["comment"]))
            k = j + 1
            while k < len(sec) and sec[k][1]["stmt"] is None and sec[k][1]["comment"] is not None:
                doc.append(strip_comment(sec[k][1]["comment"]))
                k += 1
            d = "\n".join(doc)
            # "str": the normalized DSDL form of the attribute (declared name, normalized type, evaluated value)
            if st[0] == "field":
                s["fields"].append({"kind": "Field", "type": st[1], "name": st[2], "doc": d, "str": "%s %s" % (st[1], st[2])})
            elif st[0] == "pad":
                s["fields"].append({"kind": "PaddingField", "type": st[1], "name": "", "doc": d, "str": st[1]})
            elif st[0] == "const":
                v = st[3]
                if isinstance(v, dict) and "bool" in v:
                    vs = "true" if v["bool"] else "false"
                else:
                    vs = str(v) if not isinstance(v, dict) else ("%d/%d" % tuple(v["q"]) if v["q"][1] != 1 else str(v["q"][0]))
                s["constants"].append({"type": st[1], "name": st[2], "value": v, "doc": d, "str": "%s %s = %s" % (st[1], st[2], vs)})
        out_sections.append(s)
    return {"service": len(sections) == 2, "deprecated": deprecated, "sections": out_sections, "prints": prints}


def project_actual(d: dict) -> dict:
    """Project mc.dump.composite() output onto the same shape."""

    def sec(c: dict) -> dict:
        fields, consts = [], []
        for a in c["attributes"]:
            if a["kind"] in ("Field", "PaddingField"):
                fields.append({"kind": a["kind"], "type": a["type"]["str"], "name": a["name"], "doc": a["doc"], "str": a["str"]})
            else:
                v = a["value"]
                vv = v["q"][0] if "q" in v and v["q"][1] == 1 else v
                consts.append({"type": a["type"]["str"], "name": a["name"], "value": vv, "doc": a["doc"], "str": a["str"]})
        delimited = c["cls"] == "DelimitedType"
        return {
            "doc": c["doc"],
            "union": c["inner_cls"] == "UnionType",
            "sealed": not delimited,
            "extent": c["extent"] if delimited else None,
            "fields": fields,
            "constants": consts,
        }

    if d["cls"] == "ServiceType":
        return {"service": True, "deprecated": d["deprecated"], "sections": [sec(d["request"]), sec(d["response"])]}
    return {"service": False, "deprecated": d["deprecated"], "sections": [sec(d)]}
