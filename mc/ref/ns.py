"""
Reference model of namespaces: pure functions on a configuration.

config := {"defs": [def...]}   def := {"dir": "<directory of the root namespace, relative to the scratch base>",
                                       "name": "<full name>", "ver": [major, minor], "port": None|int,
                                       "refs": [[full_name, [major, minor], spelling], ...], "legacy": bool, "text": optional override}
The root namespace name is the first component of `name` and the last component of `dir`.
"""
from __future__ import annotations


class Invalid(Exception):
    """The configuration must be rejected with InvalidDefinitionError."""


def file_of(d) -> str:
    comps = d["name"].split(".")
    fname = "%s%s.%d.%d.%s" % ("" if d.get("port") is None else "%d." % d["port"], comps[-1], d["ver"][0], d["ver"][1], "uavcan" if d.get("legacy") else "dsdl")
    return "/".join([d["dir"]] + comps[1:-1] + [fname])


def ref_expr(d, r) -> str:
    """Spelling of a reference: 'abs' -> full name, 'rel' -> short name (only admissible inside the same namespace)."""
    name, ver, spelling = r
    if spelling == "rel":
        assert name.rsplit(".", 1)[0] == d["name"].rsplit(".", 1)[0]
        return "%s.%d.%d" % (name.rsplit(".", 1)[1], ver[0], ver[1])
    return "%s.%d.%d" % (name, ver[0], ver[1])


def text_of(d, index: int = 0) -> str:
    if d.get("text") is not None:
        return d["text"]
    lines = ["# %s" % d["name"]]
    refs = list(enumerate(d.get("refs", [])))
    for i, r in (refs if not d.get("service") else refs[0::2]):
        lines.append("%s r%d" % (ref_expr(d, r), i))
    lines.append("uint8[%d] payload" % (index + 1))
    lines.append("@sealed")
    if d.get("service"):  # a service definition: references with odd positions live in the response section
        lines.append("---")
        for i, r in refs[1::2]:
            lines.append("%s r%d" % (ref_expr(d, r), i))
        lines.append("uint8 status")
        lines.append("@extent 64 * 8")
    return "\n".join(lines) + "\n"


def files_of(config) -> dict:
    return {file_of(d): text_of(d, i) for i, d in enumerate(config["defs"])}


def key(d):
    return (d["name"], -d["ver"][0], -d["ver"][1])


def ident(d) -> str:
    return "%s.%d.%d" % (d["name"], d["ver"][0], d["ver"][1])


def visible(config, target_dirs, lookup_dirs):
    """Definitions that can be referred to: those under the target roots and the lookup roots."""
    dirs = set(target_dirs) | set(lookup_dirs)
    return [d for d in config["defs"] if d["dir"] in dirs]


def resolve(config, vis, referrer, ref):
    name, ver, _sp = ref
    cands = [d for d in vis if d["name"].lower() == name.lower() and d["ver"] == ver and d is not referrer and not (d["name"] == referrer["name"] and d["ver"] == referrer["ver"])]
    if not cands:
        raise Invalid("undefined %s.%s" % (name, ver))
    if len(cands) > 1:
        raise Invalid("ambiguous %s" % name)
    if cands[0]["name"] != name:
        raise Invalid("case mismatch %s" % name)
    return cands[0]


def closure(config, vis, targets):
    """
    Definitions reachable from the targets (targets included), resolving references as the Specification demands:
    exact full name and version, unique among the visible definitions; self / cyclic references are undefined
    because a definition being read is not visible to its own dependency chain.
    """
    order = []
    state = {}

    def visit(d, chain):
        k = file_of(d)  # one node per FILE (several files may encode one identity)
        if state.get(k) == "done":
            return
        if any(c is d or (c["name"] == d["name"] and c["ver"] == d["ver"]) for c in chain):
            raise Invalid("cyclic reference through %s" % ident(d))
        for r in d.get("refs", []):
            # a definition on the current chain is invisible to what it (transitively) refers to
            vis2 = [x for x in vis if not any(x is c or (x["name"] == c["name"] and x["ver"] == c["ver"]) for c in chain + [d])]
            t = resolve(config, vis2, d, r)
            visit(t, chain + [d])
        state[k] = "done"
        order.append(d)

    for t in sorted(targets, key=key):
        visit(t, [])
    return order


def expected_read_namespace(config, root_dir, lookup_dirs):
    targets = [d for d in config["defs"] if d["dir"] == root_dir]
    vis = visible(config, [root_dir], lookup_dirs)
    closure(config, vis, targets)  # raises Invalid when a reference cannot be resolved
    return [ident(d) for d in sorted(targets, key=key)]


def expected_read_files(config, targets, lookup_dirs):
    tdirs = sorted({t["dir"] for t in targets})
    vis = visible(config, tdirs, lookup_dirs)
    cl = closure(config, vis, targets)
    direct = sorted(targets, key=key)
    trans = [d for d in cl if not any(d is t for t in targets)]
    return [ident(d) for d in direct], [ident(d) for d in sorted(trans, key=key)]
