"""
Reference codec for the Cyphal wire format on abstract type descriptions (mc.gen.types).

Deliberately naive: a list of bits (index = bit position, LSB of every byte first), no byte fast path, no `struct`:
  * integers little-endian two's complement, least significant bit first;
  * IEEE 754 binary16/32/64 by an own encoder working on exact Fractions (round half to even, subnormals, overflow);
  * implicit array length prefix, union tag, delimiter header (= byte length of the nested object), zero padding to
    every alignment, composites padded to a byte;
  * decoding with implicit zero extension (reads beyond the end of the scope yield zeros) and implicit truncation.
encode() also yields the POSITION TRACE (field path -> start bit) that C08 compares the offset sets with.
"""
from __future__ import annotations

import math
from fractions import Fraction

from . import layout as L

FLOAT_PARAMS = {16: (5, 10), 32: (8, 23), 64: (11, 52)}  # exponent bits, mantissa bits


class Reject(Exception):
    """The reference decoder rejects the input; .kind in {array-length, union-tag, delimiter-header, utf8}."""

    def __init__(self, kind: str):
        super().__init__(kind)
        self.kind = kind


class BadValue(Exception):
    """The value is not valid input for the type (outside the quantifier of C06)."""


# ------------------------------------------------------------------------------------------------ IEEE 754
def float_max(nbits: int) -> Fraction:
    e, m = FLOAT_PARAMS[nbits]
    bias = (1 << (e - 1)) - 1
    return (2 - Fraction(1, 1 << m)) * Fraction(2) ** bias


def encode_float_bits(x, nbits: int) -> int:
    """x: python float (incl. nan/inf) or exact Fraction. Round to nearest, ties to even; overflow -> infinity."""
    e_bits, m_bits = FLOAT_PARAMS[nbits]
    bias = (1 << (e_bits - 1)) - 1
    emax_field = (1 << e_bits) - 1
    if isinstance(x, float):
        if math.isnan(x):
            sign = 1 if math.copysign(1.0, x) < 0 else 0
            return (sign << (nbits - 1)) | (emax_field << m_bits) | (1 << (m_bits - 1))
        if math.isinf(x):
            return ((1 if x < 0 else 0) << (nbits - 1)) | (emax_field << m_bits)
        sign = 1 if math.copysign(1.0, x) < 0 else 0
        f = Fraction(x)
    else:
        f = Fraction(x)
        sign = 1 if f < 0 else 0
    f = abs(f)
    if f == 0:
        return sign << (nbits - 1)
    emin = 1 - bias  # exponent of the smallest normal
    # e = floor(log2(f))
    e = f.numerator.bit_length() - f.denominator.bit_length()
    if Fraction(2) ** e > f:
        e -= 1
    if Fraction(2) ** (e + 1) <= f:
        e += 1
    e = max(e, emin)
    q = Fraction(2) ** (e - m_bits)  # quantum
    scaled = f / q
    n = scaled.numerator // scaled.denominator
    rem = scaled - n
    if rem > Fraction(1, 2) or (rem == Fraction(1, 2) and (n & 1)):
        n += 1
    if n >= (1 << (m_bits + 1)):
        n >>= 1
        e += 1
    if n < (1 << m_bits):  # subnormal (e == emin)
        exp_field = 0
        mant = n
    else:
        exp_field = e + bias
        mant = n - (1 << m_bits)
    if exp_field >= emax_field:
        return (sign << (nbits - 1)) | (emax_field << m_bits)
    return (sign << (nbits - 1)) | (exp_field << m_bits) | mant


def decode_float_bits(pattern: int, nbits: int) -> float:
    e_bits, m_bits = FLOAT_PARAMS[nbits]
    bias = (1 << (e_bits - 1)) - 1
    sign = -1 if (pattern >> (nbits - 1)) & 1 else 1
    exp_field = (pattern >> m_bits) & ((1 << e_bits) - 1)
    mant = pattern & ((1 << m_bits) - 1)
    if exp_field == (1 << e_bits) - 1:
        if mant:
            return math.copysign(float("nan"), sign)
        return sign * float("inf")
    if exp_field == 0:
        v = Fraction(mant, 1 << m_bits) * Fraction(2) ** (1 - bias)
    else:
        v = (1 + Fraction(mant, 1 << m_bits)) * Fraction(2) ** (exp_field - bias)
    out = float(v)  # exact: every binary16/32/64 value is a binary64 value
    return -out if sign < 0 else out


# ------------------------------------------------------------------------------------------------ scalars
def int_range(desc):
    if desc[0] == "int":
        return -(1 << (desc[1] - 1)), (1 << (desc[1] - 1)) - 1
    return 0, (1 << desc[1]) - 1


def cast_mode(desc) -> str:
    if desc[0] in ("byte", "utf8"):
        return "t"
    if desc[0] in ("uint", "float"):
        return desc[2]
    return "s"


def scalar_pattern(desc, v) -> tuple[int, int]:
    """(bit pattern, width) of one primitive value, applying the cast mode."""
    k = desc[0]
    if k == "bool":
        if not isinstance(v, (bool, int)):
            raise BadValue
        return (1 if v else 0), 1
    if k in ("uint", "int", "byte", "utf8"):
        n = 8 if k in ("byte", "utf8") else desc[1]
        if isinstance(v, float) and k in ("uint", "int") and v == v and v not in (float("inf"), float("-inf")) and v.is_integer():
            v = int(v)  # an integral-valued float IS that integer (exactly); non-integral floats are outside the model
        if not isinstance(v, (bool, int)):
            raise BadValue
        v = int(v)
        lo, hi = (0, 255) if k in ("byte", "utf8") else int_range(desc)
        if cast_mode(desc) == "s":
            v = max(lo, min(hi, v))
        return v & ((1 << n) - 1), n
    if k == "float":
        n = desc[1]
        mx = float_max(n)
        if isinstance(v, float) and (math.isnan(v) or math.isinf(v)):
            return encode_float_bits(v, n), n
        f = Fraction(v) if not isinstance(v, float) else Fraction(v)
        if desc[2] == "s":
            if f > mx:
                f = mx
            elif f < -mx:
                f = -mx
            if isinstance(v, float) and f == 0:
                return encode_float_bits(v, n), n  # keep the sign of zero
            return encode_float_bits(f, n), n
        if isinstance(v, float) and f == 0:
            return encode_float_bits(v, n), n
        return encode_float_bits(f, n), n
    if k == "void":
        return 0, desc[1]
    raise BadValue


def scalar_value(desc, pattern: int):
    k = desc[0]
    if k == "bool":
        return bool(pattern)
    if k in ("uint", "byte", "utf8"):
        return pattern
    if k == "int":
        n = desc[1]
        return pattern - (1 << n) if pattern >> (n - 1) else pattern
    if k == "float":
        return decode_float_bits(pattern, desc[1])
    raise ValueError(desc)


# ------------------------------------------------------------------------------------------------ defaults
def default(desc):
    k = desc[0]
    if k == "bool":
        return False
    if k in ("uint", "int", "byte", "utf8"):
        return 0
    if k == "float":
        return 0.0
    if k == "farr":
        if desc[1][0] == "byte":
            return bytes(desc[2])
        return [default(desc[1]) for _ in range(desc[2])]
    if k == "varr":
        return "" if desc[1][0] == "utf8" else (b"" if desc[1][0] == "byte" else [])
    if k == "struct":
        return {("f%d" % i): default(f) for i, f in enumerate(desc[1]) if f[0] != "void"}
    if k == "union":
        return {"f0": default(desc[1][0])}
    if k == "delim":
        return default(desc[1])
    raise ValueError(desc)


# ------------------------------------------------------------------------------------------------ encoder
def _put(out: list, pattern: int, n: int) -> None:
    for i in range(n):
        out.append((pattern >> i) & 1)


def _align(out: list, a: int) -> None:
    while len(out) % a:
        out.append(0)


def _elements(desc, v):
    """Normalise an array value into a list of element values."""
    e = desc[1]
    if e[0] == "utf8":
        if isinstance(v, str):
            return list(v.encode("utf-8"))
        if isinstance(v, (bytes, bytearray)):
            bytes(v).decode("utf-8")  # must be valid
            return list(v)
        raise BadValue
    if e[0] == "byte":
        if isinstance(v, str):
            return list(v.encode("utf-8"))
        if isinstance(v, (bytes, bytearray, list, tuple)):
            return list(v)
        raise BadValue
    if isinstance(v, (list, tuple)):
        return list(v)
    raise BadValue


def encode_into(desc, v, out: list, trace: list | None = None, path: str = "") -> None:
    k = desc[0]
    if k in ("bool", "uint", "int", "float", "byte", "utf8", "void"):
        p, n = scalar_pattern(desc, v)
        _put(out, p, n)
        return
    if k == "farr":
        els = _elements(desc, v)
        if len(els) != desc[2]:
            raise BadValue
        for i, x in enumerate(els):
            _align(out, L.align(desc[1]))
            if trace is not None:
                trace.append(("%s[%d]" % (path, i), len(out)))
            encode_into(desc[1], x, out, trace, "%s[%d]" % (path, i))
        return
    if k == "varr":
        els = _elements(desc, v)
        if len(els) > desc[2]:
            raise BadValue
        _put(out, len(els), L.prefix_width(desc))
        for i, x in enumerate(els):
            _align(out, L.align(desc[1]))
            encode_into(desc[1], x, out, None, "")
        return
    if k == "struct":
        if not isinstance(v, dict):
            raise BadValue
        names = {"f%d" % i for i, f in enumerate(desc[1]) if f[0] != "void"}
        if any(key not in names for key in v):
            raise BadValue
        _align(out, 8)
        for i, f in enumerate(desc[1]):
            _align(out, L.align(f))
            name = "f%d" % i
            if trace is not None:
                trace.append((path + ("." if path else "") + (name if f[0] != "void" else "pad%d" % i), len(out)))
            if f[0] == "void":
                _put(out, 0, f[1])
            else:
                fv = v[name] if name in v else default(f)
                encode_into(f, fv, out, trace, path + ("." if path else "") + name)
        _align(out, 8)
        return
    if k == "union":
        if not isinstance(v, dict) or len(v) != 1:
            raise BadValue
        (name, fv), = v.items()
        idx = None
        for i in range(len(desc[1])):
            if name == "f%d" % i:
                idx = i
        if idx is None:
            raise BadValue
        _align(out, 8)
        _put(out, idx, L.tag_width(desc))
        if trace is not None:
            trace.append((path + ("." if path else "") + name, len(out)))
        encode_into(desc[1][idx], fv, out, trace, path + ("." if path else "") + name)
        _align(out, 8)
        return
    if k == "delim":
        _align(out, 8)
        inner: list = []
        sub_trace: list | None = [] if trace is not None else None
        encode_into(desc[1], v, inner, sub_trace, path)
        assert len(inner) % 8 == 0
        _put(out, len(inner) // 8, L.header_width(desc))
        base = len(out)
        if trace is not None and sub_trace is not None:
            trace.extend((p, base + o) for p, o in sub_trace)
        out.extend(inner)
        return
    raise ValueError(desc)


def bits_to_bytes(bits: list) -> bytes:
    assert len(bits) % 8 == 0, len(bits)
    out = bytearray(len(bits) // 8)
    for i, b in enumerate(bits):
        if b:
            out[i >> 3] |= 1 << (i & 7)
    return bytes(out)


def encode(desc, v, with_header: bool = False, trace: list | None = None) -> bytes:
    """Top-level serialization of a composite. A delimited top-level type is written without its header unless asked."""
    out: list = []
    if desc[0] == "delim" and not with_header:
        encode_into(desc[1], v, out, trace, "")
    else:
        encode_into(desc, v, out, trace, "")
    return bits_to_bytes(out)


# ------------------------------------------------------------------------------------------------ canonical value
def canon(desc, v):
    """What deserialize(serialize(v)) must return."""
    k = desc[0]
    if k in ("bool", "uint", "int", "float", "byte", "utf8"):
        p, _n = scalar_pattern(desc, v)
        return scalar_value(desc, p)
    if k == "farr" or k == "varr":
        els = _elements(desc, v)
        if (k == "farr" and len(els) != desc[2]) or len(els) > desc[2]:
            raise BadValue
        c = [canon(desc[1], x) for x in els]
        if desc[1][0] == "utf8":
            return bytes(c).decode("utf-8")
        if desc[1][0] == "byte":
            return bytes(c)
        return c
    if k == "struct":
        return {("f%d" % i): canon(f, v["f%d" % i] if ("f%d" % i) in v else default(f)) for i, f in enumerate(desc[1]) if f[0] != "void"}
    if k == "union":
        (name, fv), = v.items()
        return {name: canon(desc[1][int(name[1:])], fv)}
    if k == "delim":
        return canon(desc[1], v)
    raise ValueError(desc)


def same(a, b) -> bool:
    """Value equality with NaN == NaN and -0.0 != 0.0, bool distinct from int."""
    if isinstance(a, float) or isinstance(b, float):
        if not (isinstance(a, float) and isinstance(b, float)):
            return False
        if math.isnan(a) or math.isnan(b):
            return math.isnan(a) and math.isnan(b)
        return a == b and math.copysign(1.0, a) == math.copysign(1.0, b)
    if isinstance(a, bool) != isinstance(b, bool):
        return False
    if isinstance(a, dict):
        return isinstance(b, dict) and list(a.keys()) == list(b.keys()) and all(same(a[k], b[k]) for k in a)
    if isinstance(a, list):
        return isinstance(b, list) and len(a) == len(b) and all(same(x, y) for x, y in zip(a, b))
    return type(a) == type(b) and a == b


# ------------------------------------------------------------------------------------------------ decoder
class _Reader:
    def __init__(self, data: bytes):
        self.bits = []
        for byte in data:
            for i in range(8):
                self.bits.append((byte >> i) & 1)
        self.pos = 0
        self.limit = len(self.bits)

    def take(self, n: int) -> int:
        v = 0
        for i in range(n):
            p = self.pos + i
            if p < self.limit and p < len(self.bits) and self.bits[p]:
                v |= 1 << i
        self.pos += n
        return v

    def align(self, a: int) -> None:
        self.pos = -(-self.pos // a) * a

    def remaining(self) -> int:
        return max(0, self.limit - self.pos)


def decode_from(desc, r: _Reader):
    k = desc[0]
    if k in ("bool", "uint", "int", "float", "byte", "utf8"):
        n = 1 if k == "bool" else (8 if k in ("byte", "utf8") else desc[1])
        return scalar_value(desc, r.take(n))
    if k == "void":
        r.take(desc[1])
        return None
    if k in ("farr", "varr"):
        if k == "farr":
            n = desc[2]
        else:
            n = r.take(L.prefix_width(desc))
            if n > desc[2]:
                raise Reject("array-length")
        els = []
        for _ in range(n):
            r.align(L.align(desc[1]))
            els.append(decode_from(desc[1], r))
        if desc[1][0] == "utf8":
            try:
                return bytes(els).decode("utf-8")
            except UnicodeDecodeError:
                raise Reject("utf8") from None
        if desc[1][0] == "byte":
            return bytes(els)
        return els
    if k == "struct":
        r.align(8)
        out = {}
        for i, f in enumerate(desc[1]):
            r.align(L.align(f))
            x = decode_from(f, r)
            if f[0] != "void":
                out["f%d" % i] = x
        r.align(8)
        return out
    if k == "union":
        r.align(8)
        tag = r.take(L.tag_width(desc))
        if tag >= len(desc[1]):
            raise Reject("union-tag")
        x = decode_from(desc[1][tag], r)
        r.align(8)
        return {"f%d" % tag: x}
    if k == "delim":
        r.align(8)
        h = r.take(L.header_width(desc))
        if h * 8 > r.remaining():
            raise Reject("delimiter-header")
        start = r.pos
        saved = r.limit
        r.limit = start + h * 8
        try:
            x = decode_from(desc[1], r)
        finally:
            r.limit = saved
        r.pos = start + h * 8
        return x
    raise ValueError(desc)


def decode(desc, data: bytes, with_header: bool = False):
    r = _Reader(bytes(data))
    if desc[0] == "delim" and not with_header:
        return decode_from(desc[1], r)
    return decode_from(desc, r)


# ------------------------------------------------------------------------------------------------ self-check
def selfcheck() -> int:
    """The own IEEE encoder against `struct` on every binary16 pattern and on midpoints/neighbours; returns #checks."""
    import struct

    n = 0
    for pat in range(0, 1 << 16):
        v = decode_float_bits(pat, 16)
        sv = struct.unpack("<e", pat.to_bytes(2, "little"))[0]
        assert (math.isnan(v) and math.isnan(sv)) or (v == sv and math.copysign(1, v) == math.copysign(1, sv)), pat
        if not math.isnan(v):
            assert encode_float_bits(v, 16) == pat, pat
        n += 1
    # midpoints between consecutive positive binary16 values and their neighbours, against struct
    prev = 0.0
    for pat in range(1, 0x7C00, 7):
        v = decode_float_bits(pat, 16)
        lo = decode_float_bits(pat - 1, 16)
        mid = (v + lo) / 2
        for x in (mid, math.nextafter(mid, 0), math.nextafter(mid, 1e9), -mid):
            try:
                want = int.from_bytes(struct.pack("<e", x), "little")
            except OverflowError:
                want = 0x7C00 | (0x8000 if x < 0 else 0)
            assert encode_float_bits(x, 16) == want, (x, pat)
            n += 1
        prev = v
    for x in (0.1, 1e-46, 1.401298464324817e-45, 7e-46, 3.4028234663852886e38, 3.4028235677973362e38, 3.4028235677973366e38, 3.5e38, 1e39, 1.17549435e-38, 2.5, -1.75):
        for s in (x, -x):
            try:
                want = int.from_bytes(struct.pack("<f", s), "little")
            except OverflowError:
                want = 0x7F800000 | (0x80000000 if s < 0 else 0)
            assert encode_float_bits(s, 32) == want, s
            n += 1
    for x in (0.1, 5e-324, 1.7976931348623157e308, 2.2250738585072014e-308, 1 / 3):
        assert encode_float_bits(x, 64) == int.from_bytes(struct.pack("<d", x), "little"), x
        n += 1
    # round trip of structures through the reference itself
    d = ["struct", [["uint", 8, "s"], ["varr", ["int", 16], 2], ["delim", ["struct", [["bool"]]], 16]]]
    v = {"f0": 7, "f1": [-2, 70000], "f2": {"f0": True}}
    b = encode(d, v)
    assert same(decode(d, b), canon(d, v))
    assert b == bytes([7, 2, 0xFE, 0xFF, 0xFF, 0x7F, 1, 0, 0, 0, 1]), b.hex()
    return n
