"""
Reference layout per the Cyphal Specification, on abstract type descriptions (mc.gen.types).

Two formulations:
  * lengths(desc): the explicit set of possible bit lengths by LEFT-TO-RIGHT CURSOR semantics (a set of cursor
    positions is advanced field by field: pad every position to the field's alignment, add every possible length
    of the field); raises TooBig beyond a cap;
  * tree(desc): a ref.bls operator tree with the same meaning, for capacities that cannot be expanded.
selfcheck() compares the two on a family of small types.
"""
from __future__ import annotations

from . import bls

CAP = 20000


class TooBig(Exception):
    pass


def align(desc) -> int:
    k = desc[0]
    if k in ("farr", "varr"):
        return align(desc[1])
    if k in ("struct", "union"):
        return max([8] + [align(f) for f in desc[1]])
    if k == "delim":
        return align(desc[1])
    return 1


def smallest_standard_width(max_value: int) -> int:
    """Smallest of 8/16/32/64 bits whose unsigned range holds max_value."""
    for w in (8, 16, 32, 64):
        if max_value <= (1 << w) - 1:
            return w
    raise ValueError(max_value)


def prefix_width(desc) -> int:
    assert desc[0] == "varr"
    return max(smallest_standard_width(desc[2]), align(desc))


def tag_width(desc) -> int:
    assert desc[0] == "union"
    return max([smallest_standard_width(len(desc[1]) - 1)] + [align(f) for f in desc[1]])


def header_width(desc) -> int:
    return max(32, align(desc))


def pad(x: int, a: int) -> int:
    return -(-x // a) * a


def _chk(s):
    if len(s) > CAP:
        raise TooBig
    return s


def advance(cursor: frozenset, desc) -> frozenset:
    """Cursor positions after serializing one object of type desc starting at any position of `cursor`."""
    a = align(desc)
    L = lengths(desc)
    if len(cursor) * len(L) > 40 * CAP:
        raise TooBig
    return _chk(frozenset(pad(c, a) + l for c in cursor for l in L))


_memo: dict = {}


def lengths(desc) -> frozenset:
    from ..gen.types import key

    ck = key(desc)
    if ck in _memo:
        r = _memo[ck]
        if r is None:
            raise TooBig
        return r
    try:
        r = _lengths(desc)
    except TooBig:
        _memo[ck] = None
        raise
    if len(_memo) > 200000:
        _memo.clear()
    _memo[ck] = r
    return r


def _lengths(desc) -> frozenset:
    k = desc[0]
    if k == "bool":
        return frozenset([1])
    if k in ("uint", "int", "float", "void"):
        return frozenset([desc[1]])
    if k in ("byte", "utf8"):
        return frozenset([8])
    if k == "farr":
        if desc[2] > 4096:
            raise TooBig
        cur = frozenset([0])
        for _ in range(desc[2]):
            cur = advance(cur, desc[1])
        return cur
    if k == "varr":
        if desc[2] > 4096:
            raise TooBig
        w = prefix_width(desc)
        cur = frozenset([w])
        out = set(cur)
        for _ in range(desc[2]):
            cur = advance(cur, desc[1])
            out |= cur
            _chk(out)
        return frozenset(out)
    if k == "struct":
        cur = frozenset([0])
        for f in desc[1]:
            cur = advance(cur, f)
        return frozenset(pad(c, align(desc)) for c in cur)
    if k == "union":
        w = tag_width(desc)
        out = set()
        for f in desc[1]:
            out |= advance(frozenset([w]), f)
        _chk(out)
        return frozenset(pad(c, align(desc)) for c in out)
    if k == "delim":
        if desc[2] // 8 > CAP:
            raise TooBig
        h = header_width(desc)
        return frozenset(h + 8 * i for i in range(desc[2] // 8 + 1))
    raise ValueError(desc)


def inner_lengths(desc) -> frozenset:
    """For a delimited type: the lengths of the object inside the envelope (without header)."""
    assert desc[0] == "delim"
    return lengths(desc[1])


def tree(desc):
    """ref.bls operator tree of the type's bit length set (same semantics, analytic)."""
    k = desc[0]
    if k == "bool":
        return ["leaf", [1]]
    if k in ("uint", "int", "float", "void"):
        return ["leaf", [desc[1]]]
    if k in ("byte", "utf8"):
        return ["leaf", [8]]
    if k == "farr":
        # element lengths are multiples of the element alignment, hence no inter-element padding
        return ["rep", tree(desc[1]), desc[2]]
    if k == "varr":
        return ["cat", [["leaf", [prefix_width(desc)]], ["rng", tree(desc[1]), desc[2]]]]
    if k == "struct":
        cur = ["leaf", [0]]
        for f in desc[1]:
            cur = ["cat", [["pad", cur, align(f)], tree(f)]]
        return ["pad", cur, align(desc)]
    if k == "union":
        w = tag_width(desc)
        return ["pad", ["cat", [["leaf", [w]], ["uni", [tree(f) for f in desc[1]]]]], align(desc)]
    if k == "delim":
        return ["cat", [["leaf", [header_width(desc)]], ["rng", ["leaf", [8]], desc[2] // 8]]]
    raise ValueError(desc)


def tmax(desc) -> int:
    return bls.tmax(tree(desc))


def tmin(desc) -> int:
    return bls.tmin(tree(desc))


def extent(desc) -> int:
    if desc[0] == "delim":
        return desc[2]
    return tmax(desc)


def valid_extent(inner_desc, extent_bits: int) -> bool:
    return extent_bits % 8 == 0 and extent_bits >= tmax(inner_desc)


def selfcheck() -> int:
    from ..gen import types as T

    n = 0
    fam = list(T.structs(T.F1[:9], 2)) + list(T.unions(T.F1[:6], 2))
    fam += [["struct", [["bool"], s, ["uint", 3, "s"]]] for s in list(T.structs(T.LEAF7, 2))[:30]]
    for d in fam + T.arrays_over(fam[5:40], (2,), (2,)):
        e = lengths(d)
        t = tree(d)
        assert e == bls.expand(t), d
        assert min(e) == bls.tmin(t) and max(e) == bls.tmax(t)
        n += 1
    return n
