"""
Reference model of DSDL constant expressions: tree evaluation in exact arithmetic, the Specification's
precedence/associativity table, a minimal-parenthesis renderer and an independent precedence-climbing parser
(self-check: parse(render(t)) == t for every tree before it is used).

tree := ["lit", source_text] | ["id", name] | ["set", [trees]] | ["un", op, tree] | ["bin", op, tree, tree] | ["attr", tree, name]
        ["id", name]: an identifier (a constant of the same schema section, or `Type.M.m.NAME`); its value is ENV[name] - the source
        text of a literal - and the identifier is undefined when ENV has no such name
value: Fraction | bool | str | frozenset(values)        (Undefined is raised for what the Specification leaves undefined)
"""
from __future__ import annotations

import re
import unicodedata
from fractions import Fraction


class Undefined(Exception):
    pass


class OutOfScope(Exception):
    """Non-integer or huge exponents: outside the quantifier of C04."""


# precedence levels, from loosest to tightest
LEVEL = {
    "||": 1, "&&": 1,
    "!": 2,
    "==": 3, "!=": 3, "<=": 3, ">=": 3, "<": 3, ">": 3,
    "|": 4, "^": 4, "&": 4,
    "+": 5, "-": 5,
    "*": 6, "/": 6, "%": 6,
    "u+": 7, "u-": 7,
    "**": 8,
    ".": 9,
}
BINOPS = ["||", "&&", "==", "!=", "<=", ">=", "<", ">", "|", "^", "&", "+", "-", "*", "/", "%", "**"]
UNOPS = ["!", "+", "-"]
ATTRS = ["min", "max", "count", "nonexistent"]


# ------------------------------------------------------------------------------------------------ literals
def literal_value(src: str):
    if src == "true":
        return True
    if src == "false":
        return False
    if src[0] in "'\"":
        body = src[1:-1]
        assert "\\" not in body
        return body
    s = src.replace("_", "")
    if re.fullmatch(r"0[bB][01]+", s):
        return Fraction(int(s[2:], 2))
    if re.fullmatch(r"0[oO][0-7]+", s):
        return Fraction(int(s[2:], 8))
    if re.fullmatch(r"0[xX][0-9a-fA-F]+", s):
        return Fraction(int(s[2:], 16))
    if re.fullmatch(r"[0-9]+", s):
        return Fraction(int(s, 10))
    m = re.fullmatch(r"([0-9]*)(?:\.([0-9]*))?(?:[eE]([+-]?[0-9]+))?", s)
    assert m and (m.group(1) or m.group(2)), src
    mant = Fraction(int((m.group(1) or "0") + (m.group(2) or "")), 10 ** len(m.group(2) or ""))
    return mant * Fraction(10) ** int(m.group(3) or 0)


ENV: dict = {}  # identifier environment of the section being evaluated: name -> literal source text (set by the caller)


# ------------------------------------------------------------------------------------------------ evaluation
def kind(v) -> str:
    if isinstance(v, bool):
        return "bool"
    if isinstance(v, Fraction):
        return "q"
    if isinstance(v, str):
        return "str"
    if isinstance(v, frozenset):
        return "set"
    raise TypeError(v)


def elem_kind(s: frozenset):
    ks = {kind(x) for x in s}
    assert len(ks) == 1
    k = next(iter(ks))
    return k


def mkset(items) -> frozenset:
    items = list(items)
    if not items:
        raise Undefined("empty set")
    if len({kind(x) for x in items}) != 1:
        raise Undefined("heterogeneous set")
    return frozenset(items)


def nfc(s: str) -> str:
    return unicodedata.normalize("NFC", s)


def is_int(q: Fraction) -> bool:
    return q.denominator == 1


ARITH = {"+", "-", "*", "/", "%", "**"}


def scalar_binop(op: str, a, b):
    ka, kb = kind(a), kind(b)
    if op in ("||", "&&"):
        if ka == kb == "bool":
            return (a or b) if op == "||" else (a and b)
        raise Undefined(op)
    if op in ("==", "!="):
        if ka != kb:
            raise Undefined(op)
        if ka == "str":
            r = nfc(a) == nfc(b)
        else:
            r = a == b
        return r if op == "==" else (not r)
    if op in ("<", "<=", ">", ">="):
        if ka == kb == "q":
            return {"<": a < b, "<=": a <= b, ">": a > b, ">=": a >= b}[op]
        raise Undefined(op)
    if op in ("|", "^", "&"):
        if ka == kb == "q":
            if not (is_int(a) and is_int(b)):
                raise Undefined("bitwise on non-integer")
            x, y = a.numerator, b.numerator
            return Fraction({"|": x | y, "^": x ^ y, "&": x & y}[op])
        raise Undefined(op)
    if op == "+" and ka == kb == "str":
        return a + b
    if op in ARITH:
        if not (ka == kb == "q"):
            raise Undefined(op)
        if op == "+":
            return a + b
        if op == "-":
            return a - b
        if op == "*":
            return a * b
        if op == "/":
            if b == 0:
                raise Undefined("division by zero")
            return a / b
        if op == "%":
            if b == 0:
                raise Undefined("modulo by zero")
            return a - b * ((a / b).__floor__())
        if op == "**":
            if not is_int(b):
                raise OutOfScope("non-integer exponent")
            e = b.numerator
            if abs(e) > 64:
                raise OutOfScope("large exponent")
            if a == 0 and e < 0:
                raise Undefined("zero to a negative power")
            return a**e
    raise Undefined(op)


def binop(op: str, a, b):
    ka, kb = kind(a), kind(b)
    if ka == "set" and kb == "set":
        if op in ("==", "!=", "<", "<=", ">", ">=", "|", "^", "&"):
            if elem_kind(a) != elem_kind(b):
                raise Undefined("sets of different element types")
            if op == "==":
                return a == b
            if op == "!=":
                return a != b
            if op == "<":
                return a < b
            if op == "<=":
                return a <= b
            if op == ">":
                return a > b
            if op == ">=":
                return a >= b
            if op == "|":
                return mkset(a | b)
            if op == "^":
                return mkset(a ^ b)
            return mkset(a & b)
        raise Undefined(op)
    if ka == "set" or kb == "set":
        if op in ARITH:
            if ka == "set":
                return mkset(binop(op, x, b) for x in a)
            return mkset(binop(op, a, x) for x in b)
        raise Undefined(op)
    return scalar_binop(op, a, b)


def evaluate(t):
    k = t[0]
    if k == "lit":
        return literal_value(t[1])
    if k == "id":
        if t[1] not in ENV:
            raise Undefined("undefined identifier")
        return literal_value(ENV[t[1]])
    if k == "set":
        return mkset(evaluate(x) for x in t[1])
    if k == "un":
        v = evaluate(t[2])
        if t[1] == "!":
            if kind(v) != "bool":
                raise Undefined("!")
            return not v
        if kind(v) != "q":
            raise Undefined("unary")
        return v if t[1] == "+" else -v
    if k == "bin":
        a = evaluate(t[2])  # left operand first: the implementation evaluates left to right as well
        b = evaluate(t[3])
        return binop(t[1], a, b)
    if k == "attr":
        v = evaluate(t[1])
        if kind(v) != "set":
            raise Undefined("attribute of non-set")
        if t[2] == "count":
            return Fraction(len(v))
        if t[2] in ("min", "max"):
            if elem_kind(v) != "q":
                if len(v) == 1:
                    # no comparison is needed to pick the extreme of a singleton; C04 does not say whether this counts
                    # as an undefined combination, so it is left out of the comparison
                    raise OutOfScope("min/max of a singleton non-rational set")
                raise Undefined("min/max of non-rational set")
            return min(v) if t[2] == "min" else max(v)
        raise Undefined("unknown attribute")
    raise ValueError(t)


def value_json(v):
    k = kind(v)
    if k == "bool":
        return {"bool": v}
    if k == "q":
        return {"q": [v.numerator, v.denominator]}
    if k == "str":
        return {"str": v}
    return {"set": sorted((value_json(x) for x in v), key=repr)}


# ------------------------------------------------------------------------------------------------ rendering
def level(t) -> int:
    k = t[0]
    if k in ("lit", "set", "id"):
        return 10
    if k == "un":
        return 2 if t[1] == "!" else 7
    if k == "bin":
        return LEVEL[t[1]]
    return 9


def render(t, style: str = "min", min_level: int = 0) -> str:
    """style: 'min' minimal parentheses single blanks; 'full' every operator node parenthesised; 'tight' minimal, no blanks;
    'wide' minimal, double blanks around every token."""
    sp = {"min": " ", "full": " ", "tight": "", "wide": "  "}[style]
    k = t[0]
    if k in ("lit", "id"):
        return t[1]
    if k == "set":
        inner = ("," + sp).join(render(x, style, 0) for x in t[1])
        return "{" + (sp if style == "wide" else "") + inner + (sp if style == "wide" else "") + "}"
    L = level(t)
    if k == "un":
        op = t[1]
        child_min = 2 if op == "!" else 8
        s = op + (sp if style == "wide" else "") + render(t[2], style, child_min)
    elif k == "bin":
        op = t[1]
        if op == "**":
            lm, rm = 9, 7
        else:
            lm, rm = L, L + 1
        s = render(t[2], style, lm) + sp + op + sp + render(t[3], style, rm)
    else:
        child = t[1]
        # `1.min` would lex as the real literal `1.`; a numeric literal under the attribute operator is parenthesised
        need = 9
        if child[0] == "lit" and re.match(r"[0-9.]", child[1]):
            need = 11
        s = render(child, style, need) + (sp if style == "wide" else "") + "." + (sp if style == "wide" else "") + t[2]
    if style == "full" or L < min_level:
        return "(" + (sp if style == "wide" else "") + s + (sp if style == "wide" else "") + ")"
    return s


# ------------------------------------------------------------------------------------------------ own parser (self-check)
TOKEN = re.compile(
    r"""\s*(?:
      (?P<real>(?:[0-9](?:_?[0-9])*)?\.[0-9](?:_?[0-9])*(?:[eE][+-]?[0-9](?:_?[0-9])*)?|[0-9](?:_?[0-9])*\.(?:[eE][+-]?[0-9]+)?(?![0-9a-zA-Z_])|[0-9](?:_?[0-9])*[eE][+-]?[0-9](?:_?[0-9])*)
     |(?P<int>0[bB](?:_?[01])+|0[oO](?:_?[0-7])+|0[xX](?:_?[0-9a-fA-F])+|[0-9](?:_?[0-9])*)
     |(?P<str>'[^'\\]*'|"[^"\\]*")
     |(?P<id>(?:[a-zA-Z_][a-zA-Z0-9_]*\.)+[0-9]+\.[0-9]+\.[a-zA-Z_][a-zA-Z0-9_]*|[a-zA-Z_][a-zA-Z0-9_]*)
     |(?P<op>\|\||&&|==|!=|<=|>=|\*\*|[<>|^&+\-*/%!.(){},])
    )""",
    re.X,
)


def tokenize(text: str):
    pos = 0
    out = []
    while pos < len(text):
        m = TOKEN.match(text, pos)
        if not m or m.end() == pos:
            if text[pos:].strip() == "":
                break
            raise SyntaxError("bad token at %d in %r" % (pos, text))
        pos = m.end()
        for k in ("real", "int", "str", "id", "op"):
            if m.group(k) is not None:
                out.append((k, m.group(k)))
                break
    return out


class _P:
    def __init__(self, toks):
        self.t = toks
        self.i = 0

    def peek(self):
        return self.t[self.i] if self.i < len(self.t) else ("eof", "")

    def take(self):
        x = self.peek()
        self.i += 1
        return x

    def chain(self, ops, sub):
        left = sub()
        while self.peek()[0] == "op" and self.peek()[1] in ops:
            op = self.take()[1]
            right = sub()
            left = ["bin", op, left, right]
        return left

    def logical(self):
        return self.chain(("||", "&&"), self.logical_not)

    def logical_not(self):
        if self.peek() == ("op", "!"):
            self.take()
            return ["un", "!", self.logical_not()]
        return self.comparison()

    def comparison(self):
        return self.chain(("==", "!=", "<=", ">=", "<", ">"), self.bitwise)

    def bitwise(self):
        return self.chain(("|", "^", "&"), self.additive)

    def additive(self):
        return self.chain(("+", "-"), self.multiplicative)

    def multiplicative(self):
        return self.chain(("*", "/", "%"), self.inversion)

    def inversion(self):
        if self.peek() in (("op", "+"), ("op", "-")):
            op = self.take()[1]
            return ["un", op, self.exponential()]
        return self.exponential()

    def exponential(self):
        base = self.attribute()
        if self.peek() == ("op", "**"):
            self.take()
            return ["bin", "**", base, self.inversion()]
        return base

    def attribute(self):
        a = self.atom()
        while self.peek() == ("op", "."):
            self.take()
            k, name = self.take()
            assert k == "id", name
            a = ["attr", a, name]
        return a

    def atom(self):
        k, v = self.take()
        if (k, v) == ("op", "("):
            e = self.logical()
            assert self.take() == ("op", ")")
            return e
        if (k, v) == ("op", "{"):
            items = []
            if self.peek() != ("op", "}"):
                items.append(self.logical())
                while self.peek() == ("op", ","):
                    self.take()
                    items.append(self.logical())
            assert self.take() == ("op", "}")
            return ["set", items]
        if k in ("real", "int", "str"):
            return ["lit", v]
        if k == "id" and v in ("true", "false"):
            return ["lit", v]
        if k == "id":
            return ["id", v]
        raise SyntaxError("unexpected %r" % v)


def parse(text: str):
    p = _P(tokenize(text))
    e = p.logical()
    if p.peek()[0] != "eof":
        raise SyntaxError("trailing input in %r" % text)
    return e


def selfcheck_tree(t) -> None:
    for style in ("min", "full", "tight", "wide"):
        s = render(t, style)
        back = parse(s)
        if back != t:
            raise AssertionError("renderer/parser disagree for style %s: %r -> %r -> %r" % (style, t, s, back))
