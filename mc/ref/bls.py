"""
Reference model of bit length sets: the mathematically defined set of an operator tree.

tree := ["leaf", [ints]] | ["cat", [trees]] | ["uni", [trees]] | ["rep", tree, k] | ["rng", tree, k] | ["pad", tree, a]

Two independent formulations, cross-checked against each other whenever both are computable (selfcheck()):
  * expand(t): the explicit Python set (iterated sumsets; never multicombinations);
  * residues(t, d) / tmin(t) / tmax(t): exact answers without expansion - residues by BINARY exponentiation of
    sumsets in Z_d (no k -> min(k, d + k mod d) reduction, so the implementation's number-theoretic shortcut is
    checked against a formulation that does not use it), extremes by big-integer arithmetic.
"""
from __future__ import annotations

from math import gcd

EXPAND_CAP = 60000  # maximal cardinality / magnitude the reference is willing to expand explicitly


def lcm(a: int, b: int) -> int:
    return a // gcd(a, b) * b


def pad(x: int, a: int) -> int:
    return -(-x // a) * a


def tmin(t) -> int:
    k = t[0]
    if k == "leaf":
        return min(t[1])
    if k == "cat":
        return sum(tmin(c) for c in t[1])
    if k == "uni":
        return min(tmin(c) for c in t[1])
    if k == "rep":
        return tmin(t[1]) * t[2]
    if k == "rng":
        return 0
    if k == "pad":
        return pad(tmin(t[1]), t[2])
    raise ValueError(k)


def tmax(t) -> int:
    k = t[0]
    if k == "leaf":
        return max(t[1])
    if k == "cat":
        return sum(tmax(c) for c in t[1])
    if k == "uni":
        return max(tmax(c) for c in t[1])
    if k in ("rep", "rng"):
        return tmax(t[1]) * t[2]
    if k == "pad":
        return pad(tmax(t[1]), t[2])
    raise ValueError(k)


def _sumset_mod_plain(a: frozenset, b: frozenset, d: int) -> frozenset:
    return frozenset((x + y) % d for x in a for y in b)


def _sumset_mod(a: frozenset, b: frozenset, d: int) -> frozenset:
    """{(x + y) mod d}.  Large operands in a small group are added as bit masks (one rotation of b's mask per element of a);
    the two formulations are compared on every pair of subsets of Z_5 and Z_6 when the module is loaded."""
    if len(a) * len(b) <= 1024 or d > 1 << 16:
        return _sumset_mod_plain(a, b, d)
    if len(a) > len(b):
        a, b = b, a
    full = (1 << d) - 1
    mb = 0
    for y in b:
        mb |= 1 << (y % d)
    out = 0
    for x in a:
        s = x % d
        out |= ((mb << s) | (mb >> (d - s))) & full
        if out == full:
            break
    return frozenset(i for i in range(d) if out >> i & 1)


def _selfcheck_sumset() -> None:
    import itertools

    global _sumset_mod
    fast = _sumset_mod
    for d in (5, 6):
        subsets = [frozenset(c) for n in range(1, d + 1) for c in itertools.combinations(range(d), n)]
        for a in subsets:
            for b in subsets:
                # force the mask path by lifting the operands (same residues, more elements)
                la = frozenset(x + d * j for x in a for j in range(40))
                lb = frozenset(y + d * j for y in b for j in range(40))
                assert fast(la, lb, d) == _sumset_mod_plain(a, b, d), (a, b, d)


_selfcheck_sumset()


def _power_mod(r: frozenset, k: int, d: int) -> frozenset:
    """k-fold sumset of r in Z_d by binary exponentiation."""
    result = frozenset([0])
    base = r
    while k > 0:
        if k & 1:
            result = _sumset_mod(result, base, d)
        k >>= 1
        if k:
            base = _sumset_mod(base, base, d)
    return result


def residues(t, d: int) -> frozenset:
    k = t[0]
    if k == "leaf":
        return frozenset(x % d for x in t[1])
    if k == "cat":
        acc = frozenset([0])
        for c in t[1]:
            acc = _sumset_mod(acc, residues(c, d), d)
        return acc
    if k == "uni":
        acc = frozenset()
        for c in t[1]:
            acc |= residues(c, d)
        return acc
    if k == "rep":
        return _power_mod(residues(t[1], d), t[2], d)
    if k == "rng":
        # union over j in [0, k] of the j-fold sumset == k-fold sumset of (R u {0})
        return _power_mod(residues(t[1], d) | {0}, t[2], d)
    if k == "pad":
        m = lcm(t[2], d)
        return frozenset(pad(x, t[2]) % d for x in residues(t[1], m))
    raise ValueError(k)


class TooBig(Exception):
    pass


def _sumset(a: frozenset, b: frozenset) -> frozenset:
    if len(a) * len(b) > 4_000_000:
        raise TooBig
    out = frozenset(x + y for x in a for y in b)
    if len(out) > EXPAND_CAP:
        raise TooBig
    return out


def expand(t) -> frozenset:
    """Explicit set; raises TooBig beyond the cap."""
    k = t[0]
    if k == "leaf":
        return frozenset(t[1])
    if k == "cat":
        acc = frozenset([0])
        for c in t[1]:
            acc = _sumset(acc, expand(c))
        return acc
    if k == "uni":
        acc = frozenset()
        for c in t[1]:
            acc |= expand(c)
        if len(acc) > EXPAND_CAP:
            raise TooBig
        return acc
    if k in ("rep", "rng"):
        n = t[2]
        if n > 4096:
            raise TooBig
        base = expand(t[1])
        if k == "rng":
            base = base | {0}
        if tmax(t) - tmin(t) > 50 * EXPAND_CAP:
            raise TooBig
        result = frozenset([0])
        b = base
        while n > 0:
            if n & 1:
                result = _sumset(result, b)
            n >>= 1
            if n:
                b = _sumset(b, b)
        return result
    if k == "pad":
        return frozenset(pad(x, t[2]) for x in expand(t[1]))
    raise ValueError(k)


def try_expand(t):
    try:
        return expand(t)
    except TooBig:
        return None


def impl_expansion_cost(t) -> float:
    """
    Upper estimate of the number of tuples the IMPLEMENTATION enumerates when asked to expand t numerically
    (it uses itertools.product / combinations_with_replacement).  Used only to decide which trees are also asked
    for their numerical expansion; analytic queries are asked for every tree.
    """
    from math import comb

    BIG = 10**30

    def cap(n, cost):
        # astronomically large bounds saturate (comb() of two huge bounds does not fit a float any more)
        return (BIG if n > BIG else n), (1e30 if cost > 1e30 else float(cost))

    def go(t):
        return cap(*go_(t))

    def go_(t):  # returns (cardinality bound, cost)
        k = t[0]
        if k == "leaf":
            return len(set(t[1])), 1.0
        if k == "cat":
            n, cost = 1, 0.0
            for c in t[1]:
                cn, cc = go(c)
                n *= cn
                cost += cc
            return n, cost + n
        if k == "uni":
            n, cost = 0, 0.0
            for c in t[1]:
                cn, cc = go(c)
                n += cn
                cost += cc
            return n, cost + n
        if k == "rep":
            cn, cc = go(t[1])
            if t[2] > 64:
                return 10**30, 1e30
            if cn >= BIG:
                return BIG, 1e30
            m = comb(cn + t[2] - 1, t[2])
            return m, cc + min(m, BIG)
        if k == "rng":
            cn, cc = go(t[1])
            if t[2] > 64:
                return 10**30, 1e30
            if cn >= BIG:
                return BIG, 1e30
            m = sum(comb(cn + j - 1, j) for j in range(t[2] + 1))
            return m, cc + min(m, BIG)
        if k == "pad":
            cn, cc = go(t[1])
            return cn, cc + cn
        raise ValueError(k)

    return go(t)[1]


def selfcheck() -> int:
    """Cross-check the two formulations on a small exhaustive family. Returns the number of comparisons."""
    import itertools

    n = 0
    leaves = [["leaf", [0]], ["leaf", [1, 2]], ["leaf", [3, 7]], ["leaf", [5, 6, 11]]]
    d1 = []
    for l in leaves:
        for k in (0, 1, 2, 3, 7):
            d1 += [["rep", l, k], ["rng", l, k]]
        for a in (1, 2, 3, 8):
            d1.append(["pad", l, a])
    for a, b in itertools.product(leaves, repeat=2):
        d1 += [["cat", [a, b]], ["uni", [a, b]]]
    d2 = []
    for t in d1:
        d2 += [["rep", t, 3], ["rng", t, 2], ["pad", t, 3], ["pad", t, 8], ["cat", [t, leaves[1]]], ["uni", [leaves[2], t]]]
    for t in leaves + d1 + d2:
        e = expand(t)
        assert min(e) == tmin(t) and max(e) == tmax(t), t
        for d in (1, 2, 3, 5, 7, 8, 12, 16, 32, 33):
            assert frozenset(x % d for x in e) == residues(t, d), (t, d)
            n += 1
    return n
