"""
Deep, canonical, JSON-able dump of pydsdl model objects.  Never relies on pydsdl's own __eq__/__hash__ (those are
shallow/approximate by design, see C18); every observable of the public API that the properties talk about is
written out explicitly.
"""
from __future__ import annotations

from fractions import Fraction

import pydsdl


def value(v) -> object:
    """Expression value -> canonical JSON-able form."""
    if isinstance(v, pydsdl.Boolean):
        return {"bool": bool(v.native_value)}
    if isinstance(v, pydsdl.Rational):
        f = v.native_value
        return {"q": [f.numerator, f.denominator]}
    if isinstance(v, pydsdl.String):
        return {"str": v.native_value}
    if isinstance(v, pydsdl.Set):
        return {"set": sorted((value(x) for x in v), key=repr)}
    if isinstance(v, pydsdl.SerializableType):
        return {"type": str(v)}
    return {"other": repr(v)}


def frac(f: Fraction) -> list:
    return [f.numerator, f.denominator]


BLS_EXPAND_LIMIT = 4096


def bls(b: pydsdl.BitLengthSet, expand_limit: int = BLS_EXPAND_LIMIT) -> dict:
    out = {"min": b.min, "max": b.max, "fixed": b.fixed_length, "mod8": sorted(b % 8), "mod32": sorted(b % 32), "mod64": sorted(b % 64)}
    return out


def dtype(t: pydsdl.SerializableType, depth: int = 0) -> object:
    """Type reference as seen from an attribute: string form plus layout; nested composites are dumped in full."""
    if isinstance(t, pydsdl.CompositeType):
        return composite(t, nested=True)
    d: dict = {"cls": type(t).__name__, "str": str(t), "align": t.alignment_requirement, "bls": bls(t.bit_length_set)}
    if isinstance(t, pydsdl.PrimitiveType):
        d["bits"] = t.bit_length
        d["cast"] = t.cast_mode.name
    elif isinstance(t, pydsdl.VoidType):
        d["bits"] = t.bit_length
    elif isinstance(t, pydsdl.ArrayType):
        d["capacity"] = t.capacity
        d["elem"] = dtype(t.element_type, depth + 1)
        if isinstance(t, pydsdl.VariableLengthArrayType):
            d["prefix"] = str(t.length_field_type)
    return d


def attribute(a: pydsdl.Attribute) -> dict:
    d: dict = {"kind": type(a).__name__, "name": a.name, "doc": a.doc, "str": str(a), "type": dtype(a.data_type)}
    if isinstance(a, pydsdl.Constant):
        d["value"] = value(a.value)
    return d


def composite(t: pydsdl.CompositeType, nested: bool = False, with_paths: bool = False) -> dict:
    d: dict = {
        "cls": type(t).__name__,
        "inner_cls": type(t.inner_type).__name__,
        "str": str(t),
        "full_name": t.full_name,
        "version": [t.version.major, t.version.minor],
        "deprecated": t.deprecated,
        "fixed_port_id": t.fixed_port_id,
        "doc": t.doc,
        "has_parent_service": t.has_parent_service,
    }
    if with_paths:
        d["source_file_path"] = str(t.source_file_path)
        d["source_file_path_to_root"] = str(t.source_file_path_to_root)
    if isinstance(t, pydsdl.ServiceType):
        d["request"] = composite(t.request_type, nested=True, with_paths=with_paths)
        d["response"] = composite(t.response_type, nested=True, with_paths=with_paths)
        return d
    d["align"] = t.alignment_requirement
    d["extent"] = t.extent
    d["bls"] = bls(t.bit_length_set)
    if isinstance(t, pydsdl.DelimitedType):
        d["header"] = str(t.delimiter_header_type)
        d["inner_extent"] = t.inner_type.extent
        d["inner_bls"] = bls(t.inner_type.bit_length_set)
    if isinstance(t.inner_type, pydsdl.UnionType):
        d["tag"] = str(t.inner_type.tag_field_type)
    d["attributes"] = [attribute(a) for a in t.attributes]
    d["fields"] = [str(a) for a in t.fields]
    d["constants"] = [str(a) for a in t.constants]
    return d
