"""
Common exploration engine.

A check module (mc/checks/cNN.py) provides

    ID, LEVEL, RULE, ASSUMPTIONS, DESIGN_REF
    plan(tier)            -> list of JSON-able shard descriptors (a partition of the bounded space)
    cases(shard, tier)    -> iterator of JSON-able cases of that shard, simplest first
    check_case(case, R)   -> executes the REAL pydsdl on the case, compares with the reference model and
                             records everything in R (an Acc)
    finish(tier, M)       -> optional: vacuity guards / extra coverage keys computed from the merged Acc

The engine enumerates every shard (16 long-lived worker processes, no fork per execution), merges the
accumulators deterministically, matches violations against known_findings.txt, writes replay files, the
evidence file and the VIOLATION / KNOWN-FINDING lines.  Nothing here samples: the set of cases is a function of
(check, tier) only; VERIF_SEED merely rotates the order in which shards are handed out.
"""
from __future__ import annotations

import collections
import contextlib
import hashlib
import importlib
import json
import multiprocessing as mp
import os
import signal
import sys
import time
import traceback
from pathlib import Path

VERIF = Path(__file__).resolve().parent.parent
REPO = Path(os.environ.get("VERIF_REPO", "/repo")).resolve()
NPROC = int(os.environ.get("VERIF_JOBS", "16"))
MAX_VIOLATIONS_KEPT = 40  # per shard and per fingerprint-class; totals are still counted


def bind_repo() -> None:
    """Make `import pydsdl` pick the working tree under test (always /repo for the registered commands)."""
    import logging

    logging.disable(logging.CRITICAL)  # the library logs warnings (legacy extensions, ...) that are not observations
    p = str(REPO)
    if sys.path[0] != p:
        sys.path.insert(0, p)
    import pydsdl  # noqa

    got = Path(pydsdl.__file__).resolve().parent.parent
    if got != REPO:
        raise SystemExit("HARNESS ERROR: pydsdl imported from %s, expected %s" % (got, REPO))


def canon(obj) -> str:
    return json.dumps(obj, sort_keys=True, separators=(",", ":"), default=_json_default, ensure_ascii=True)


def _json_default(o):
    if isinstance(o, (set, frozenset)):
        return sorted(o, key=repr)
    if isinstance(o, bytes):
        return "hex:" + o.hex()
    if isinstance(o, tuple):
        return list(o)
    return repr(o)


def h64(obj) -> int:
    return int.from_bytes(hashlib.blake2b(canon(obj).encode(), digest_size=8).digest(), "big")


class Vacuous(Exception):
    """The run did not see the outcome classes it must see: harness failure, never a silent pass."""


class Acc:
    """Accumulator for one shard (worker side) and for the merged run (main side)."""

    def __init__(self) -> None:
        self.evaluations = 0
        self.nontrivial: set[int] = set()
        self.hist: collections.Counter = collections.Counter()
        self.violations: list[dict] = []
        self.violation_count: collections.Counter = collections.Counter()
        self.samples: list = []
        self.states: set[int] = set()
        self.transitions = 0
        self.traces = 0
        self.counters: collections.Counter = collections.Counter()
        self.notes: set[str] = set()

    # -- recording ---------------------------------------------------------------------------------------------
    def case(self, case, nontrivial: bool = True, sample: bool = True, key=None) -> None:
        self.evaluations += 1
        if nontrivial:
            self.nontrivial.add(h64(case if key is None else key))
        if sample and len(self.samples) < 3:
            self.samples.append(case)

    def outcome(self, cls: str, n: int = 1) -> None:
        self.hist[cls] += n

    def state(self, s) -> None:
        self.states.add(h64(s))

    def violation(self, fingerprint: str, clause: str, case, observed=None, expected=None, note: str = "") -> None:
        self.violation_count[fingerprint] += 1
        if self.violation_count[fingerprint] <= MAX_VIOLATIONS_KEPT:
            self.violations.append(
                {
                    "fingerprint": fingerprint,
                    "clause": clause,
                    "case": case,
                    "observed": observed,
                    "expected": expected,
                    "note": note,
                }
            )

    # -- merging -----------------------------------------------------------------------------------------------
    def merge(self, other: "Acc") -> None:
        self.evaluations += other.evaluations
        self.nontrivial |= other.nontrivial
        self.hist.update(other.hist)
        self.violation_count.update(other.violation_count)
        for v in other.violations:
            n = sum(1 for w in self.violations if w["fingerprint"] == v["fingerprint"])
            if n < MAX_VIOLATIONS_KEPT:
                self.violations.append(v)
        for s in other.samples:
            if len(self.samples) < 6:
                self.samples.append(s)
        self.states |= other.states
        self.transitions += other.transitions
        self.traces += other.traces
        self.counters.update(other.counters)
        self.notes |= other.notes


class CaseTimeout(BaseException):
    """Derives from BaseException so that the implementation's own catch-all handlers cannot swallow the watchdog."""


@contextlib.contextmanager
def deadline(seconds: float):
    """Per-case watchdog (worker main thread only)."""

    # The budget is PROCESSOR time of this worker: on an oversubscribed machine the wall clock says nothing about the case.
    # The wall-clock timer only wakes the watchdog up; it re-arms itself until the processor time is used up (backstop:
    # 20 x the budget of wall time, for a case that blocks without computing).
    c0 = time.process_time()
    w0 = time.time()

    def onalarm(_sig, _frm):
        used = time.process_time() - c0
        if used >= seconds or time.time() - w0 >= 20 * seconds:
            raise CaseTimeout("case exceeded %.1f s" % seconds)
        signal.setitimer(signal.ITIMER_REAL, max(0.05, seconds - used))

    old = signal.signal(signal.SIGALRM, onalarm)
    t0 = time.time()
    outer_left, _ = signal.setitimer(signal.ITIMER_REAL, seconds)  # re-entrant: remember an enclosing watchdog
    try:
        yield
    finally:
        signal.setitimer(signal.ITIMER_REAL, 0)
        signal.signal(signal.SIGALRM, old)
        if outer_left:
            signal.setitimer(signal.ITIMER_REAL, max(0.01, outer_left - (time.time() - t0)))


def innermost_pydsdl_frame(exc: BaseException) -> str:
    """(function name of the innermost frame inside pydsdl/) -- the culprit signature for escaped exceptions."""
    best = "?"
    e = exc
    seen = 0
    while e is not None and seen < 8:
        tb = e.__traceback__
        while tb is not None:
            fn = tb.tb_frame.f_code.co_filename
            if "/pydsdl/" in fn and "/third_party/" not in fn:
                best = "%s:%s" % (Path(fn).name, tb.tb_frame.f_code.co_name)
            tb = tb.tb_next
        e = e.__cause__ if e.__cause__ is not None else None
        seen += 1
    return best


def raised_inside_pydsdl(exc: BaseException) -> bool:
    # the innermost frame that belongs either to the harness or to the implementation decides: an exception raised by the
    # standard library / a third-party package ON BEHALF of pydsdl (pathlib called from _namespace.py) is the implementation's
    tb = exc.__traceback__
    owner = None
    while tb is not None:
        fn = tb.tb_frame.f_code.co_filename
        if fn.startswith(str(VERIF)):
            owner = "harness"
        elif "/pydsdl/" in fn:
            owner = "pydsdl"
        tb = tb.tb_next
    return owner == "pydsdl"


def guarded(mod, case, R: "Acc") -> None:
    """
    Run one case. An exception that escapes from inside the implementation (innermost frame under pydsdl/) while the
    check was not expecting any is a violation of the property being checked (the answer is not the reference's);
    an exception raised by harness code is a harness error and aborts the run.
    """
    try:
        with deadline(getattr(mod, "CASE_TIMEOUT", 600.0)):
            mod.check_case(case, R)
    except CaseTimeout as ex:
        R.evaluations += 1
        R.violation("timeout", "terminates within the watchdog", case, observed=str(ex))
    except Exception as ex:  # noqa
        if not raised_inside_pydsdl(ex):
            raise
        R.evaluations += 1
        R.violation(
            "impl-exception:%s@%s" % (type(ex).__name__, innermost_pydsdl_frame(ex)),
            "the implementation answers every query of the explored space (no exception escapes)",
            case,
            observed=traceback.format_exc()[-1500:],
        )


# ---------------------------------------------------------------------------------------------------------------
def _load(check_id: str):
    return importlib.import_module("mc.checks." + check_id.lower())


_W: dict = {}


def _worker_init(check_id: str) -> None:
    bind_repo()
    from . import ws

    ws.init_worker()
    _W["mod"] = _load(check_id)
    if hasattr(_W["mod"], "worker_init"):
        _W["mod"].worker_init()


def _worker_run(arg):
    idx, shard, tier = arg
    mod = _W["mod"]
    R = Acc()
    t0 = time.time()
    try:
        for case in mod.cases(shard, tier):
            guarded(mod, case, R)
    except Exception:  # harness failure inside a shard: report, never swallow
        return idx, None, traceback.format_exc(), time.time() - t0
    return idx, R, None, time.time() - t0


def load_known_findings() -> tuple[dict[tuple[str, str], str], list[str]]:
    """known_findings.txt: `finding: property=<id> fingerprint=<fp> what=<text>` / `fixed: property=<id> <commit> <what>`"""
    findings: dict[tuple[str, str], str] = {}
    fixed: list[str] = []
    p = VERIF / "known_findings.txt"
    if p.exists():
        for line in p.read_text().splitlines():
            line = line.strip()
            if line.startswith("finding:"):
                body = line[len("finding:") :].strip()
                parts = dict(kv.split("=", 1) for kv in body.split(" what=", 1)[0].split() if "=" in kv)
                what = body.split(" what=", 1)[1] if " what=" in body else ""
                findings[(parts["property"], parts["fingerprint"])] = what
            elif line.startswith("fixed:"):
                fixed.append(line)
    return findings, fixed


def run_check(check_id: str, tier: str, seed: int) -> int:
    t0 = time.time()
    bind_repo()
    mod = _load(check_id)
    shards = list(mod.plan(tier))
    order = list(range(len(shards)))
    if order:
        k = seed % len(order)
        order = order[k:] + order[:k]  # rotation only: the covered set does not depend on the seed
    M = Acc()
    results: dict[int, Acc] = {}
    harness_errors = []
    shard_times = {}
    nproc = min(NPROC, max(1, len(shards)))
    ctx = mp.get_context("fork")
    with ctx.Pool(nproc, initializer=_worker_init, initargs=(check_id,)) as pool:
        for idx, R, err, dt in pool.imap_unordered(_worker_run, [(i, shards[i], tier) for i in order], chunksize=1):
            shard_times[idx] = dt
            if err is not None:
                harness_errors.append((idx, err))
            else:
                results[idx] = R
    for idx in sorted(results):
        M.merge(results[idx])

    from . import ws

    ws.cleanup_all()

    if harness_errors:
        for idx, err in harness_errors[:3]:
            sys.stdout.write("HARNESS ERROR in shard %d of %s:\n%s\n" % (idx, check_id, err))
        return 2

    extra = {}
    vac = None
    if hasattr(mod, "finish"):
        try:
            extra = mod.finish(tier, M) or {}
        except Vacuous as ex:
            vac = str(ex)

    known, _fixed = load_known_findings()
    listed = {fp: what for (pid, fp), what in known.items() if pid == mod.ID}
    reproduced = sorted(fp for fp in M.violation_count if fp in listed)
    for fp in reproduced:
        print("KNOWN-FINDING: property=%s %s [%s; %d cases in this run]" % (mod.ID, listed[fp], fp, M.violation_count[fp]))
    unlisted = [v for v in M.violations if v["fingerprint"] not in listed]
    n_unlisted = sum(c for fp, c in M.violation_count.items() if fp not in listed)
    rdir = VERIF / "replays" / mod.ID
    printed = set()
    for v in unlisted:
        rdir.mkdir(parents=True, exist_ok=True)
        blob = {"property": mod.ID, "tier": tier, **v}
        name = hashlib.sha1(canon(blob).encode()).hexdigest()[:16] + ".json"
        (rdir / name).write_text(json.dumps(blob, indent=1, default=_json_default, sort_keys=True))
        if v["fingerprint"] not in printed and len(printed) < 12:
            print("VIOLATION property=%s replay=%s  # %s: %s" % (mod.ID, rdir / name, v["fingerprint"], v["clause"]))
            printed.add(v["fingerprint"])

    coverage = {
        "evaluations": M.evaluations,
        "distinct_nontrivial": len(M.nontrivial),
        "rule": mod.RULE,
        "samples": M.samples[:6] or ["(none)"],
        "exhaustive": True,
        "outcome_histogram": dict(sorted(M.hist.items())),
        "shards": len(shards),
        "workers": nproc,
        "counters": dict(sorted(M.counters.items())),
        "known_findings_reproduced": reproduced,
        "unlisted_violations": n_unlisted,
        "slowest_shard_s": round(max(shard_times.values()), 2) if shard_times else 0.0,
        "slowest_shard": shards[max(shard_times, key=shard_times.get)] if shard_times else None,
    }
    if M.notes:
        coverage["notes"] = sorted(M.notes)
    if mod.LEVEL == "model_checking":
        coverage["states"] = len(M.states)
        coverage["transitions"] = M.transitions
        coverage["traces_validated_against_impl"] = M.traces
    coverage.update(extra)
    ev = {
        "property_id": mod.ID,
        "tier": tier,
        "seed": seed,
        "level": mod.LEVEL,
        "coverage": coverage,
        "assumptions": list(mod.ASSUMPTIONS),
        "wall_s": round(time.time() - t0, 2),
        "violations": n_unlisted,
        "repo": str(REPO),
    }
    (VERIF / "evidence").mkdir(exist_ok=True)
    if REPO == Path("/repo"):
        (VERIF / "evidence" / (mod.ID + ".json")).write_text(json.dumps(ev, indent=1, default=_json_default) + "\n")
    else:  # mutant demonstration runs must never overwrite the committed evidence
        (VERIF / "evidence" / (mod.ID + ".mutant.json")).write_text(json.dumps(ev, indent=1, default=_json_default) + "\n")

    print(
        "%s %s tier=%s seed=%d evaluations=%d distinct_nontrivial=%d%s violations=%d known=%d wall=%.1fs"
        % (
            mod.ID,
            "FAIL" if n_unlisted else "ok",
            tier,
            seed,
            M.evaluations,
            len(M.nontrivial),
            (" states=%d transitions=%d" % (len(M.states), M.transitions)) if mod.LEVEL == "model_checking" else "",
            n_unlisted,
            len(reproduced),
            time.time() - t0,
        )
    )
    if n_unlisted:
        return 1
    if vac is not None:
        print("VACUOUS %s: %s" % (mod.ID, vac))
        return 2
    return 0


def run_replay(check_id: str, path: str) -> int:
    bind_repo()
    from . import ws

    ws.init_worker()
    mod = _load(check_id)
    if hasattr(mod, "worker_init"):
        mod.worker_init()
    blob = json.loads(Path(path).read_text())
    R = Acc()
    guarded(mod, blob["case"], R)
    ws.cleanup_all()
    print("replay of %s: case=%s" % (path, canon(blob["case"])[:400]))
    for v in R.violations:
        print("  still fails: [%s] %s\n    observed=%s\n    expected=%s" % (v["fingerprint"], v["clause"], canon(v["observed"])[:600], canon(v["expected"])[:600]))
    if not R.violations:
        print("  no violation on this tree")
    return 1 if R.violations else 0
