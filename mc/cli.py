"""./check <ID> [--tier quick|thorough] [--replay <file>]   (tier and seed also via VERIF_TIER / VERIF_SEED)"""
import argparse
import os
import sys

from . import engine


def main() -> int:
    ap = argparse.ArgumentParser()
    ap.add_argument("id")
    ap.add_argument("--tier", default=os.environ.get("VERIF_TIER") or "quick", choices=["quick", "thorough"])
    ap.add_argument("--replay")
    a = ap.parse_args()
    try:
        seed = int(os.environ.get("VERIF_SEED", "0") or 0)
    except ValueError:
        seed = 0
    if a.replay:
        return engine.run_replay(a.id, a.replay)
    return engine.run_check(a.id, a.tier, seed)


if __name__ == "__main__":
    sys.exit(main())
