"""Thin drivers around the PUBLIC pydsdl entry points, returning canonical observations."""
from __future__ import annotations

import os
from pathlib import Path

import pydsdl

from . import dump, engine, ws


def rel(base: Path, p) -> str | None:
    if p is None:
        return None
    try:
        return str(Path(p).resolve().relative_to(base.resolve()))
    except ValueError:
        return "ABS:" + str(p)


def exc_obs(ex: BaseException, base: Path | None = None) -> dict:
    d = {
        "cls": type(ex).__name__,
        "ide": isinstance(ex, pydsdl.InvalidDefinitionError),
        "pydsdl": isinstance(ex, pydsdl.Error),
        "internal": isinstance(ex, pydsdl.InternalError),
        "path": None,
        "line": None,
        "text": str(ex)[:300],
    }
    if isinstance(ex, pydsdl.Error):
        d["path"] = rel(base, ex.path) if base is not None else (str(ex.path) if ex.path else None)
        d["line"] = ex.line
    if not d["ide"]:
        d["culprit"] = engine.innermost_pydsdl_frame(ex)
        if isinstance(ex, RecursionError) or "RecursionError" in d["text"]:
            # where exactly the stack runs out depends on the depth at entry: keep only the file
            d["culprit"] = d["culprit"].split(":")[0]
    return d


class Obs:
    __slots__ = ("types", "transitive", "error", "prints", "base", "raw_types", "raw_transitive")

    def __init__(self):
        self.types = None
        self.transitive = None
        self.error = None
        self.prints = []
        self.base = None
        self.raw_types = None
        self.raw_transitive = None

    def brief(self) -> dict:
        if self.error is not None:
            return {"error": self.error, "prints": self.prints}
        return {"types": self.types, "transitive": self.transitive, "prints": self.prints}


def read_namespace_tree(
    files: dict[str, str | bytes],
    root: str,
    lookups: list[str] | None = None,
    keep: bool = False,
    with_paths: bool = False,
    timeout: float = 20.0,
    raw: bool = False,
    nodump: bool = False,
    **kwargs,
) -> Obs:
    """Materialise `files` (relative path -> text) in a fresh scratch directory and call pydsdl.read_namespace."""
    base = ws.fresh()
    o = Obs()
    o.base = base
    try:
        ws.write_tree(base, files)
        prints = []

        def handler(path, line, text):
            prints.append([rel(base, path), line, text])

        try:
            with engine.deadline(timeout):
                res = pydsdl.read_namespace(
                    base / root, [base / x for x in (lookups or [])], print_output_handler=handler, **kwargs
                )
            o.types = [{"full_name": t.full_name} for t in res] if nodump else [dump.composite(t, with_paths=False) for t in res]
            if with_paths:
                for d, t in zip(o.types, res):
                    d["source_file_path"] = rel(base, t.source_file_path)
                    d["source_file_path_to_root"] = rel(base, t.source_file_path_to_root)
            if raw:
                o.raw_types = res
        except engine.CaseTimeout as ex:
            o.error = {"cls": "TIMEOUT", "ide": False, "pydsdl": False, "internal": False, "path": None, "line": None, "text": str(ex), "culprit": "timeout"}
        except RecursionError as ex:
            o.error = exc_obs(ex, base)
        except Exception as ex:  # noqa
            o.error = exc_obs(ex, base)
        o.prints = prints
    finally:
        if not keep:
            ws.remove(base)
    return o


def read_files_tree(
    files: dict[str, str | bytes],
    targets: list[str],
    roots: list[str],
    lookups: list[str] | None = None,
    keep: bool = False,
    timeout: float = 20.0,
    cwd: str | None = None,
    absolute: bool = True,
    raw: bool = False,
    **kwargs,
) -> Obs:
    base = ws.fresh()
    o = Obs()
    o.base = base
    old = os.getcwd()
    try:
        ws.write_tree(base, files)
        prints = []

        def handler(path, line, text):
            prints.append([rel(base, path), line, text])

        try:
            if cwd is not None:
                os.chdir(base / cwd)
            mk = (lambda x: base / x) if absolute else (lambda x: Path(x))
            with engine.deadline(timeout):
                direct, trans = pydsdl.read_files(
                    [mk(x) for x in targets],
                    [mk(x) for x in roots],
                    [mk(x) for x in (lookups or [])],
                    print_output_handler=handler,
                    **kwargs,
                )
            o.types = [dump.composite(t) for t in direct]
            o.transitive = [dump.composite(t) for t in trans]
            for lst, res in ((o.types, direct), (o.transitive, trans)):
                for d, t in zip(lst, res):
                    d["source_file_path"] = rel(base, t.source_file_path)
                    d["source_file_path_to_root"] = rel(base, t.source_file_path_to_root)
            if raw:
                o.raw_types, o.raw_transitive = direct, trans
        except engine.CaseTimeout as ex:
            o.error = {"cls": "TIMEOUT", "ide": False, "pydsdl": False, "internal": False, "path": None, "line": None, "text": str(ex), "culprit": "timeout"}
        except Exception as ex:  # noqa
            o.error = exc_obs(ex, base)
        o.prints = prints
    finally:
        os.chdir(old)
        if not keep:
            ws.remove(base)
    return o
