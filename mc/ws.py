"""Scratch namespace trees on tmpfs. One base directory per process, removed at exit; one sub-directory per case."""
from __future__ import annotations

import atexit
import os
import shutil
import tempfile
from pathlib import Path

_base: Path | None = None
_n = 0


def _pick_root() -> Path:
    for cand in ("/dev/shm", tempfile.gettempdir()):
        if os.path.isdir(cand) and os.access(cand, os.W_OK):
            return Path(cand)
    return Path(tempfile.gettempdir())


def init_worker() -> None:
    global _base
    if _base is None or not _base.exists() or not _base.name.endswith("-%d" % os.getpid()):
        _base = Path(tempfile.mkdtemp(prefix="vfy-", suffix="-%d" % os.getpid(), dir=str(_pick_root()))).resolve()
        atexit.register(cleanup_all)


def base() -> Path:
    init_worker()
    assert _base is not None
    return _base


def fresh(prefix: str = "w") -> Path:
    """A new empty directory. Names are short and never equal to a root-namespace name used by the checks."""
    global _n
    _n += 1
    d = base() / ("%s%d" % (prefix, _n))
    d.mkdir()
    return d


def write_tree(root: Path, files: dict[str, str | bytes]) -> None:
    for rel, text in files.items():
        p = root / rel
        p.parent.mkdir(parents=True, exist_ok=True)
        if isinstance(text, bytes):
            p.write_bytes(text)
        else:
            with open(p, "w", encoding="utf-8", newline="") as f:  # newline="" : write the text verbatim (CRLF stays)
                f.write(text)


def remove(d: Path) -> None:
    shutil.rmtree(d, ignore_errors=True)


def cleanup_all() -> None:
    global _base
    if _base is not None and _base.name.endswith("-%d" % os.getpid()):
        shutil.rmtree(_base, ignore_errors=True)
        _base = None
    # stale bases of dead workers of this run (forked pool children are terminated without atexit)
    root = _pick_root()
    try:
        for p in root.glob("vfy-*"):
            try:
                pid = int(p.name.rsplit("-", 1)[1])
            except ValueError:
                continue
            if not os.path.exists("/proc/%d" % pid):
                shutil.rmtree(p, ignore_errors=True)
    except OSError:
        pass
