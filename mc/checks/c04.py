"""
C04 - Constant expressions evaluate exactly, with the Specification's precedence.

Every expression tree of the bounded space is rendered in four styles (minimal parentheses, fully parenthesised,
minimal without blanks, minimal with double blanks), evaluated by the real front end through `@print` (and, for
sub-families, through constant initializers, array capacities, @extent and @assert) and compared with ref.expr.
"""
from __future__ import annotations

import ast
import itertools
from fractions import Fraction
from pathlib import Path

import pydsdl

from .. import api, engine, ws
from .. import histories as H
from ..ref import expr as X

ID = "C04"
LEVEL = "exploration"
DESIGN_REF = "DESIGN.md 4/C04"
RULE = (
    "case = (expression tree, rendering style): all trees of depth 1 over the full 40-literal alphabet (incl. strings that are canonically equivalent but differently composed: KELVIN SIGN / K, GREEK QUESTION MARK / ;, e + combining acute / precomposed) (every integer base, digit separators, every real-literal notation incl. negative exponents); all trees of depth 2 in "
    "which at most one operand of a binary operator is non-literal (both sides), unary and attribute operators over depth 1, over "
    "the tier's mixed-kind literal sub-alphabet (quick 5, thorough 13 literals) and over an all-rational (5) and a boolean/rational (5) alphabet; 17 binary, 3 unary operators, attributes {min,max,count,"
    "nonexistent}; 4 renderings each; identifiers as operands: all depth-1 trees over 7 identifiers (constants of the section, a constant of another type, an unknown name), 3 literals and a set containing "
    "an identifier, and depth-2 trees over 3 rational constants, each evaluated in a message and in BOTH sections of a service whose response re-declares the same names with other values. Trees whose evaluation needs a non-integer or >64 exponent are outside C04's quantifier and "
    "skipped (counted). Non-trivial iff the tree has an operator; value-producing and rejected trees are counted separately in the "
    "outcome histogram; distinct by canonical hash of (tree, style)"
)
ASSUMPTIONS = [
    "ref.expr is the Specification's expression semantics and precedence table; its renderer is bound to the table by an independent parser (parse(render(t)) == t for every tree and style, checked on every case)",
    "expressions are observed at API level through @print text (Fraction / repr forms parsed back), sub-families through Constant.value, array capacity, @extent and @assert",
]

LITS_FULL = ["0", "1", "2", "3", "7", "0x10", "0b1_1", "0o17", "1_0", "1.5", "2e1", ".5", "1e-3", "25e-1", "1.5E+1", "0.1", "1_0.2_5", "3.", "1.e1", "00.5", "0X1f", "0B10", "0O7", "0_0",
             "true", "false", "'a'", '"b"', "'aé'", "'K'", "'\u212a'", "'e\u0301'", "'\u00e9'", "';'", "'\u037e'",
             ["set", ["1", "2"]], ["set", ["2", "3"]], ["set", ["1.5"]], ["set", ["'a'", "'b'"]], ["set", ["true"]]]
LITS_QUICK = ["0", "3", "1.5", "true", ["set", ["1", "2"]]]  # strings: depth 1 (full alphabet) and the thorough tier
LITS_THOROUGH = ["0", "1", "3", "0x10", "1.5", ".5", "true", "false", "'a'", '"b"', ["set", ["1", "2"]], ["set", ["2", "3"]], ["set", ["'a'", "'b'"]]]
STYLES = ["min", "full", "tight", "wide"]


def lit(x):
    if isinstance(x, list):
        return ["set", [["lit", e] for e in x[1]]]
    return ["lit", x]


def depth1(lits):
    ls = [lit(x) for x in lits]
    for op in X.BINOPS:
        for a in ls:
            for b in ls:
                yield ["bin", op, a, b]
    for op in X.UNOPS:
        for a in ls:
            yield ["un", op, a]
    for n in X.ATTRS:
        for a in ls:
            yield ["attr", a, n]


def depth2(lits):
    ls = [lit(x) for x in lits]
    for t in depth1(lits):
        for op in X.BINOPS:
            for l in ls:
                yield ["bin", op, t, l]
                yield ["bin", op, l, t]
        for op in X.UNOPS:
            yield ["un", op, t]
        for n in X.ATTRS:
            yield ["attr", t, n]


LITS_RATIONAL = ["0", "2", "3", "7", "1.5"]
LITS_BOOLEAN = ["true", "false", "0", "2", "1.5"]


# ---------------------------------------------------------------------------------------------------------------
# identifiers as operands: constants of the same schema section (message; request and response of a service, where the response
# re-declares the SAME names with other values and must not see the request's), constants of another type, unknown names
ENV_REQ = {"A": "3", "B": "1.5", "C": "true", "N": "2", "Z": "0", "Dep.1.0.K": "7"}
ENV_RESP = {"A": "5", "B": "2.5", "C": "false", "N": "3", "Z": "0", "Dep.1.0.K": "7"}
DECL = {"A": "uint8 A = %s", "B": "float64 B = %s", "C": "bool C = %s", "N": "int8 N = %s", "Z": "uint8 Z = %s"}
ID_LEAVES = [["id", "A"], ["id", "B"], ["id", "C"], ["id", "N"], ["id", "Z"], ["id", "Dep.1.0.K"], ["id", "Q"], ["lit", "2"], ["lit", "1.5"], ["lit", "true"], ["set", [["id", "A"], ["lit", "2"]]]]
ID_RATIONAL = [["id", "A"], ["id", "B"], ["id", "N"]]


def ident_trees(depth: int):
    ls = ID_LEAVES if depth == 1 else ID_RATIONAL
    d1 = []
    for op in X.BINOPS:
        for a in ls:
            for b in ls:
                d1.append(["bin", op, a, b])
    for op in X.UNOPS:
        for a in ls:
            d1.append(["un", op, a])
    for n in X.ATTRS:
        for a in ls:
            d1.append(["attr", a, n])
    if depth == 1:
        yield from d1
        return
    for t in d1:
        for op in X.BINOPS:
            for l in ls:
                yield ["bin", op, t, l]
                yield ["bin", op, l, t]
        for op in X.UNOPS:
            yield ["un", op, t]


def prologue(env) -> str:
    return "".join(DECL[k] % v + "\n" for k, v in env.items() if k in DECL)


def plan(tier):
    shards = [{"family": "d1full", "part": p, "parts": 4} for p in range(4)]
    shards += [{"family": "idents1", "part": p, "parts": 8} for p in range(8)]
    shards += [{"family": "idents2", "part": p, "parts": 24} for p in range(24)]
    shards += [{"family": "d2rational", "part": p, "parts": 48} for p in range(48)]
    shards += [{"family": "d2boolean", "part": p, "parts": 16} for p in range(16)]
    parts = 96 if tier == "quick" else 384
    shards += [{"family": "d2", "part": p, "parts": parts} for p in range(parts)]
    shards += [{"family": "sinks", "part": p, "parts": 4} for p in range(4)]
    shards += H.plan_shards(['nested-revisions'])
    shards.append({"family": "strict-sinks"})
    shards += [{"family": "scale", "part": p, "parts": 4} for p in range(4)]
    return shards


BATCH = 64


def cases(shard, tier):
    if shard.get("kind") == "call-histories":
        yield from H.cases_of(shard)
        return
    fam = shard["family"]
    if fam == "scale":
        for i in range(len(scale_texts())):
            if i % shard["parts"] == shard["part"]:
                yield {"kind": "scale", "i": i}
        return
    if fam == "strict-sinks":
        for i in range(len(STRICT_SINKS)):
            yield {"kind": "strict-sink", "i": i}
        return
    if fam == "d1full" or fam == "sinks":
        gen = depth1(LITS_FULL)
    elif fam in ("idents1", "idents2"):
        batch = []
        for i, t in enumerate(ident_trees(1 if fam == "idents1" else 2)):
            if i % shard["parts"] != shard["part"]:
                continue
            batch.append(t)
            if len(batch) == BATCH:
                yield {"kind": "idents", "batch": batch, "tier": tier}
                batch = []
        if batch:
            yield {"kind": "idents", "batch": batch, "tier": tier}
        return
    elif fam == "d2rational":
        gen = depth2(LITS_RATIONAL)
    elif fam == "d2boolean":
        gen = depth2(LITS_BOOLEAN)
    else:
        gen = depth2(LITS_QUICK if tier == "quick" else LITS_THOROUGH)
    batch = []
    for i, t in enumerate(gen):
        if i % shard["parts"] != shard["part"]:
            continue
        batch.append(t)
        if len(batch) == BATCH:
            yield {"kind": "sinks" if fam == "sinks" else "print", "batch": batch, "tier": tier, "allstyles": fam == "d1full"}
            batch = []
    if batch:
        yield {"kind": "sinks" if fam == "sinks" else "print", "batch": batch, "tier": tier, "allstyles": fam == "d1full"}


# ------------------------------------------------------------------------------------------------ driver
_dir: Path | None = None


def worker_init():
    global _dir
    _dir = ws.fresh("x")
    (_dir / "rns").mkdir()


def read_text(text: str):
    """Returns (prints[(line, text)], error dict | None) for rns/T.1.0.dsdl with the given text."""
    assert _dir is not None
    p = _dir / "rns" / "T.1.0.dsdl"
    with open(p, "w", encoding="utf-8") as f:
        f.write(text)
    prints = []
    try:
        with engine.deadline(20):
            res = pydsdl.read_namespace(_dir / "rns", [], print_output_handler=lambda path, line, txt: prints.append((line, txt)))
        return prints, None, [t for t in res if t.short_name == "T"]  # (the identifier family keeps a Dep.1.0 next to T)
    except engine.CaseTimeout:
        return prints, {"cls": "TIMEOUT", "ide": False, "line": None, "text": "timeout", "culprit": "timeout"}, None
    except Exception as ex:  # noqa
        return prints, api.exc_obs(ex, _dir), None


def split_top(s: str):
    out, depth, cur, q = [], 0, "", None
    for ch in s:
        if q:
            cur += ch
            if ch == q:
                q = None
            continue
        if ch in "'\"":
            q = ch
            cur += ch
        elif ch == "{":
            depth += 1
            cur += ch
        elif ch == "}":
            depth -= 1
            cur += ch
        elif ch == "," and depth == 0:
            out.append(cur.strip())
            cur = ""
        else:
            cur += ch
    if cur.strip():
        out.append(cur.strip())
    return out


def parse_printed(s: str):
    s = s.strip()
    if s == "true":
        return {"bool": True}
    if s == "false":
        return {"bool": False}
    if s.startswith("{") and s.endswith("}"):
        return {"set": sorted((parse_printed(x) for x in split_top(s[1:-1])), key=repr)}
    if s[:1] in "'\"":
        return {"str": ast.literal_eval(s)}
    f = Fraction(s)
    return {"q": [f.numerator, f.denominator]}


def reference(t):
    """('value', json) | ('undefined', why) | ('skip', why)"""
    try:
        return ("value", X.value_json(X.evaluate(t)))
    except X.Undefined as ex:
        return ("undefined", str(ex))
    except X.OutOfScope as ex:
        return ("skip", str(ex))


def has_op(t):
    return t[0] in ("un", "bin", "attr")


def opsig(t) -> str:
    """operator signature of the tree (for fingerprints): root operator and, if present, the nested operator"""
    def name(n):
        return {"bin": lambda: n[1], "un": lambda: "u" + n[1], "attr": lambda: "." + n[2], "lit": lambda: "lit", "set": lambda: "set"}[n[0]]()
    kids = [c for c in (t[2:] if t[0] == "bin" else ([t[2]] if t[0] == "un" else ([t[1]] if t[0] == "attr" else []))) if isinstance(c, list) and c[0] in ("bin", "un", "attr")]
    return name(t) + ("(" + name(kids[0]) + ")" if kids else "")


def check_print(case, R: engine.Acc):
    trees = case["batch"]
    styles = case.get("styles", STYLES)
    refs = []
    for t in trees:
        X.selfcheck_tree(t)
        refs.append(reference(t))
    R.counters["renderer_parser_selfchecks"] += 4 * len(trees)
    for style in styles:
        defined = [(t, r) for t, r in zip(trees, refs) if r[0] == "value"]
        undefined = [(t, r) for t, r in zip(trees, refs) if r[0] == "undefined"]
        R.counters["skipped_out_of_scope"] += sum(1 for r in refs if r[0] == "skip")

        def verify_defined(group):
            text = "".join("@print %s\n" % X.render(t, style) for t, _r in group) + "@sealed\n"
            prints, err, _res = read_text(text)
            if err is not None:
                if len(group) == 1:
                    t, r = group[0]
                    R.case([t, style], nontrivial=has_op(t), sample=False)
                    R.outcome("value-expected-but-rejected")
                    R.violation("defined-expression-rejected:%s:%s" % (opsig(t), err["cls"]), "a defined expression evaluates to its mathematical value", {"kind": "print", "batch": [t], "styles": [style]}, observed={"error": err, "text": X.render(t, style)}, expected=r[1])
                else:
                    for g in group:
                        verify_defined([g])
                return
            got = dict(prints)
            for i, (t, r) in enumerate(group):
                R.case([t, style], nontrivial=has_op(t), sample=(style == "tight" and t[0] == "bin" and t[2][0] == "bin" and i % 17 == 0))
                try:
                    v = parse_printed(got[i + 1])
                except Exception:  # noqa
                    v = {"unparsable": got.get(i + 1)}
                if v != r[1]:
                    R.outcome("value-differs")
                    R.violation("value-differs:%s:%s" % (opsig(t), style if style in ("tight", "wide") else "any"), "the result equals the mathematical value under the Specification's precedence", {"kind": "print", "batch": [t], "styles": [style]}, observed={"printed": got.get(i + 1), "text": X.render(t, style)}, expected=r[1])
                else:
                    R.outcome("value")

        if defined:
            verify_defined(defined)
        for t, r in undefined:
            if "styles" not in case and not case.get("allstyles") and style not in (("min",) if case.get("tier") == "quick" else ("min", "tight")):
                continue  # rejected depth-2 trees: minimal rendering only (quick) / minimal and blank-free (thorough); depth 1: all four
            R.case([t, style], nontrivial=has_op(t), sample=False)
            text = "@print %s\n@sealed\n" % X.render(t, style)
            prints, err, _res = read_text(text)
            if err is None:
                R.outcome("undefined-accepted")
                R.violation("undefined-expression-accepted:%s" % opsig(t), "operand combinations the Specification leaves undefined are rejected", {"kind": "print", "batch": [t], "styles": [style]}, observed={"printed": prints, "text": X.render(t, style)}, expected="InvalidDefinitionError (%s)" % r[1])
            elif not err["ide"]:
                R.outcome("undefined-foreign-exception")
                R.violation("rejection-not-InvalidDefinitionError:%s@%s" % (err["cls"], err.get("culprit")), "undefined expressions are rejected as invalid definitions", {"kind": "print", "batch": [t], "styles": [style]}, observed={"error": err, "text": X.render(t, style)}, expected="InvalidDefinitionError (%s)" % r[1])
            else:
                R.outcome("rejected")


def read_text_with_dep(text: str):
    assert _dir is not None
    dep = _dir / "rns" / "Dep.1.0.dsdl"
    if not dep.exists():
        dep.write_text("uint8 K = 7\nuint8 A = 99\n@sealed\n")  # Dep also has a constant named A: it must never leak into T
    return read_text(text)


def check_idents(case, R: engine.Acc):
    """Expressions over identifiers, evaluated in a message, and in BOTH sections of a service whose response re-declares the names."""
    trees = case["batch"]
    styles = case.get("styles", ["min", "tight"] if case.get("tier") == "quick" else STYLES)
    layouts = case.get("layouts", ["message", "service"])
    for t in trees:
        X.ENV = ENV_REQ
        X.selfcheck_tree(t)
    for style in styles:
        for layout in layouts:
            sections = [ENV_REQ] if layout == "message" else [ENV_REQ, ENV_RESP]
            refs = []
            for env in sections:
                X.ENV = env
                refs.append([reference(t) for t in trees])
            # one file: every tree that is defined in every section of the layout, printed in each section
            defined = [i for i in range(len(trees)) if all(r[i][0] == "value" for r in refs)]

            def run(group):
                text, expect, line = "", {}, 0
                for si, env in enumerate(sections):
                    if si:
                        text += "@sealed\n---\n"
                        line += 2
                    pro = prologue(env)
                    text += pro
                    line += pro.count("\n")
                    for i in group:
                        text += "@print %s\n" % X.render(trees[i], style)
                        line += 1
                        expect[line] = (i, si)
                text += "@sealed\n"
                prints, err, _res = read_text_with_dep(text)
                if err is not None:
                    if len(group) > 1:
                        for i in group:
                            run([i])
                        return
                    i = group[0]
                    R.case([trees[i], style, layout], nontrivial=True, sample=False)
                    R.outcome("value-expected-but-rejected")
                    R.violation("defined-expression-rejected:%s:%s" % (opsig(trees[i]), err["cls"]), "a defined expression over constants evaluates to its mathematical value", {"kind": "idents", "batch": [trees[i]], "styles": [style], "layouts": [layout]}, observed={"error": err, "text": text}, expected=[r[i][1] for r in refs])
                    return
                got = dict(prints)
                for ln, (i, si) in expect.items():
                    R.case([trees[i], style, layout, si], nontrivial=True, sample=(layout == "service" and si == 1 and i % 29 == 0 and style == "min"))
                    try:
                        v = parse_printed(got[ln])
                    except Exception:  # noqa
                        v = {"unparsable": got.get(ln)}
                    if v != refs[si][i][1]:
                        R.outcome("value-differs")
                        R.violation("identifier-value-differs:%s:%s" % (layout if si == 0 else "response", opsig(trees[i])), "an identifier denotes the constant of that name in the SAME schema section; the result equals the mathematical value", {"kind": "idents", "batch": [trees[i]], "styles": [style], "layouts": [layout]}, observed={"printed": got.get(ln), "section": si, "text": text}, expected=refs[si][i][1])
                    else:
                        R.outcome("value")
                        R.outcome("identifier-value")

            if defined:
                run(defined)
            # undefined in some section: one file per tree, the offending expression placed in the LAST section where it is undefined
            for i in range(len(trees)):
                bad = [si for si in range(len(sections)) if refs[si][i][0] == "undefined"]
                if not bad or (style != styles[0]):
                    continue
                si = bad[-1]
                text = ""
                for sj, env in enumerate(sections):
                    if sj:
                        text += "@sealed\n---\n"
                    text += prologue(env)
                    if sj == si:
                        text += "@print %s\n" % X.render(trees[i], style)
                text += "@sealed\n"
                R.case([trees[i], style, layout, "undefined"], nontrivial=True, sample=False)
                prints, err, _res = read_text_with_dep(text)
                one = {"kind": "idents", "batch": [trees[i]], "styles": [style], "layouts": [layout]}
                if err is None:
                    R.outcome("undefined-accepted")
                    R.violation("undefined-expression-accepted:%s" % opsig(trees[i]), "unknown identifiers and undefined operand combinations are rejected", one, observed={"printed": prints, "text": text}, expected="InvalidDefinitionError (%s)" % refs[si][i][1])
                elif not err["ide"]:
                    R.outcome("undefined-foreign-exception")
                    R.violation("rejection-not-InvalidDefinitionError:%s@%s" % (err["cls"], err.get("culprit")), "undefined expressions are rejected as invalid definitions", one, observed={"error": err, "text": text})
                else:
                    R.outcome("rejected")
    # a name declared only in the request must be unknown in the response, also after it was used in the request
    if case["batch"] and case["batch"][0] == ["bin", "||", ["id", "A"], ["id", "A"]]:
        for use_in_req in (False, True):
            text = "uint8 ONLYREQ = 4\n" + ("@print ONLYREQ + 1\n" if use_in_req else "") + "@sealed\n---\n@print ONLYREQ + 1\n@sealed\n"
            R.case(["request-only-name", use_in_req], nontrivial=True, sample=False)
            prints, err, _res = read_text_with_dep(text)
            if err is None or not err["ide"]:
                R.violation("request-constant-visible-in-response", "identifier lookup does not cross the request/response boundary", {"kind": "idents", "batch": case["batch"][:1], "styles": ["min"], "layouts": ["service"]}, observed={"printed": prints, "error": err, "text": text}, expected="InvalidDefinitionError (undefined identifier)")
            else:
                R.outcome("rejected")


def check_sinks(case, R: engine.Acc):
    """Other sinks of constant expressions: constant initializer, array capacity, @extent operand, @assert."""
    for t in case["batch"]:
        r = reference(t)
        if r[0] != "value" or "q" not in r[1]:
            continue
        n, d = r[1]["q"]
        src = X.render(t, "min")
        one = {"kind": "sinks", "batch": [t]}
        # constant initializer (exact value, any rational via float64? no: use an integer carrier only for integers)
        if d == 1 and 0 <= n < 2**64:
            R.case([t, "constant"], nontrivial=True, sample=False)
            prints, err, res = read_text("uint64 X = %s\n@sealed\n" % src)
            got = None if err else [c.value.native_value for c in res[0].constants]
            R.outcome("sink-constant")
            if err or got != [Fraction(n)]:
                R.violation("sink-constant:" + opsig(t), "constant initializer evaluates to the mathematical value", one, observed=err or str(got), expected=n)
        if d == 1 and 1 <= n <= 300:
            R.case([t, "capacity"], nontrivial=True, sample=False)
            prints, err, res = read_text("uint8[%s] a\nuint8[<=%s] b\nuint8[<(%s) + 1] c\n@sealed\n" % (src, src, src))
            got = None if err else [f.data_type.capacity for f in res[0].fields]
            R.outcome("sink-capacity")
            if err or got != [n, n, n]:
                R.violation("sink-capacity:" + opsig(t), "array capacity expression evaluates to the mathematical value", one, observed=err or got, expected=[n, n, n])
            R.case([t, "extent"], nontrivial=True, sample=False)
            prints, err, res = read_text("@extent 8 * (%s)\n" % src)
            got = None if err else res[0].extent
            R.outcome("sink-extent")
            if err or got != 8 * n:
                R.violation("sink-extent:" + opsig(t), "@extent operand evaluates to the mathematical value", one, observed=err or got, expected=8 * n)
        R.case([t, "assert"], nontrivial=True, sample=False)
        lit_expected = "%d" % n if d == 1 and n >= 0 else ("(%d / %d)" % (n, d) if n >= 0 else "(-%d / %d)" % (-n, d))
        prints, err, res = read_text("@assert (%s) == %s\n@assert !((%s) != %s)\n@sealed\n" % (src, lit_expected, src, lit_expected))
        R.outcome("sink-assert")
        if err:
            R.violation("sink-assert:" + opsig(t), "@assert on the mathematical value holds", one, observed=err, expected="%s == %s" % (src, lit_expected))


# sinks whose admissible values are restricted: what reaches them must be the EXACT value of the expression (never floored / rounded /
# re-encoded), so a non-integer where an integer is required, or a character that is not one ASCII character, is rejected
STRICT_SINKS = (
    [("@extent %s\n" % e, ok, 8 * 8 if ok else None) for e, ok in [("64", True), ("128 / 2", True), ("64.0", True), ("6.4e1", True), ("64.5", False), ("129 / 2", False), ("64 + 1/3", False), ("2**6 + 2**-2", False), ("8 * 8.1", False), ("640e-1", True), ("645e-1", False), ("193 / 3", False), ("-1 / 2", False)]]
    + [("uint8[%s] a\n@sealed\n" % e, ok, None) for e, ok in [("2", True), ("4 / 2", True), ("2.0", True), ("2.5", False), ("5 / 2", False), ("<=5 / 2", False), ("<=2.5", False), ("<7 / 2", False), ("<=6 / 2", True), ("2 + 2**-60", False)]]
    + [("uint8 X = %s\n@sealed\n" % e, ok, v) for e, ok, v in [("'a'", True, 97), ("'\u007f'", True, 127), ("'\u0080'", False, None), ("'\u00ff'", False, None), ("'\u00e9'", False, None), ("'' + '\u00ff'", False, None), ("'' + 'a'", True, 97), ("'a' + ''", True, 97),
                                                                 ("'ab'", False, None), ("''", False, None), ("'\u0100'", False, None), ("'\u20ac'", False, None), ("'\\u007f'", True, 127), ("'\\u00ff'", False, None), ("255", True, 255), ("255.0", True, 255), ("255.5", False, None), ("511 / 2", False, None), ("510 / 2", True, 255)]]
    + [("uint16 X = %s\n@sealed\n" % e, ok, None) for e, ok in [("'a'", False), ("97", True)]]
    + [("int8 X = %s\n@sealed\n" % e, ok, None) for e, ok in [("'a'", False), ("-128", True), ("-128.5", False), ("-257 / 2", False)]]
    + [("bool X = %s\n@sealed\n" % e, ok, None) for e, ok in [("true", True), ("1", False), ("'a'", False), ("1 == 1", True)]]
)


def check_strict_sinks(case, R):
    text, ok, val = STRICT_SINKS[case["i"]]
    R.case(["strict-sink", text], nontrivial=True, sample=False)
    prints, err, res = read_text(text)
    if ok:
        if err is not None:
            R.violation("strict-sink-valid-rejected", "an operand whose exact value is admissible is accepted", case, observed={"error": err, "text": text})
            return
        if val is not None:
            got = res[0].extent if text.startswith("@extent") else [c.value.native_value for c in res[0].constants]
            if got != (val if text.startswith("@extent") else [Fraction(val)]):
                R.violation("strict-sink-value", "the sink receives the exact value of the expression", case, observed=str(got), expected=val)
                return
        R.outcome("strict-sink-accepted")
    else:
        if err is None:
            R.violation("strict-sink-invalid-accepted", "a non-integer where an integer is required / a string that is not one ASCII character is rejected, never floored, rounded or re-encoded", case, observed={"text": text, "extent": getattr(res[0], "extent", None), "constants": [str(c) for c in res[0].constants]})
        elif not err["ide"]:
            R.violation("rejection-not-InvalidDefinitionError:%s@%s" % (err["cls"], err.get("culprit")), "undefined expressions are rejected as invalid definitions", case, observed=err)
        else:
            R.outcome("strict-sink-rejected")


# ---------------------------------------------------------------------------------------------------------------
# beyond three of everything: dozens of constants per section (re-declared in the response), more than a hundred set literals /
# parenthesised expressions / distinct literals in one definition
def scale_texts():
    out = []
    for n in (9, 16, 17, 20, 40):
        for layout in ("message", "service"):
            lines, expect = [], []
            for sec, base in (("req", 0), ("rsp", 100)) if layout == "service" else (("req", 0),):
                if sec == "rsp":
                    lines += ["@sealed", "---"]
                for i in range(n):
                    lines.append("uint16 K%02d = %d" % (i, base + i))
                lines.append("@print K00 + K%02d" % (n - 1))
                expect.append((len(lines), Fraction(2 * base + n - 1)))
                lines.append("@print " + " + ".join("K%02d" % i for i in range(n)))
                expect.append((len(lines), Fraction(n * base + n * (n - 1) // 2)))
                lines.append("uint16 SUM = K%02d * 2 + K%02d" % (n // 2, n - 2))
                lines.append("@print SUM")
                expect.append((len(lines), Fraction(2 * (base + n // 2) + base + n - 2)))
            lines.append("@sealed")
            out.append(("constants-%d-%s" % (n, layout), "\n".join(lines) + "\n", expect))
    for n in (40, 64, 65, 70, 130):
        lines = ["@print {%d, %d}.max + {%d}.count" % (i, i + 1, i) for i in range(n)]
        out.append(("set-literals-%d" % n, "\n".join(lines) + "\n@sealed\n", [(i + 1, Fraction(i + 2)) for i in range(n)]))
        lines = ["@print ((%d) + (1)) * (2)" % i for i in range(n)]
        out.append(("parentheses-%d" % n, "\n".join(lines) + "\n@sealed\n", [(i + 1, Fraction(2 * i + 2)) for i in range(n)]))
    for n in (200, 1100, 2100):
        lines = ["@print %d + %d.5" % (10000 + i, 20000 + i) for i in range(n)]
        out.append(("distinct-literals-%d" % n, "\n".join(lines) + "\n@sealed\n", [(i + 1, Fraction(60001 + 4 * i, 2)) for i in range(n)]))
    for n in (5, 9, 17, 33):  # long operator chains: left-associative - and /, right-associative **
        terms = [str(i + 2) for i in range(n)]
        v = Fraction(int(terms[0]))
        for t in terms[1:]:
            v -= int(t)
        w = Fraction(int(terms[0]))
        for t in terms[1:]:
            w /= int(t)
        out.append(("chains-%d" % n, "@print %s\n@print %s\n@print %s\n@sealed\n" % (" - ".join(terms), " / ".join(terms), " + ".join("%s * %s" % (a, b) for a, b in zip(terms, terms[1:]))),
                    [(1, v), (2, w), (3, Fraction(sum(int(a) * int(b) for a, b in zip(terms, terms[1:]))))]))
    # magnitudes far outside the range of a double, as final and as intermediate results (exact rational arithmetic has no range)
    big = [
        ("2 ** 1024", Fraction(2**1024)), ("10 ** 309 + 1", Fraction(10**309 + 1)), ("2 ** 1030 / 2 ** 1027", Fraction(8)), ("(10 ** 400 + 1) % 10 ** 400", Fraction(1)),
        ("1e308 * 10", Fraction(10**309)), ("1e400 / 1e399", Fraction(10)), ("2 ** 1024 - 2 ** 1024", Fraction(0)), ("1 / 2 ** 1100 * 2 ** 1100", Fraction(1)),
        ("{2 ** 1024, 1}.max", Fraction(2**1024)), ("2 ** -1100", Fraction(1, 2**1100)), ("(2 ** 600) * (2 ** 600)", Fraction(2**1200)), ("2 ** 2 ** 10", Fraction(2**1024)),
        ("-(2 ** 1100) / 3", Fraction(-(2**1100), 3)), ("(2 ** 1100 + 1) / 2", Fraction(2**1100 + 1, 2)), ("1e-400 * 1e400", Fraction(1)), ("0x1_0000 ** 65", Fraction(2**1040)),
        ("-1e309", Fraction(-(10**309))), ("+(3 ** 700)", Fraction(3**700)), ("2 ** 1023 + 2 ** 1022", Fraction(2**1023 + 2**1022)), ("2 ** 1023 * 2", Fraction(2**1024)),
    ]
    out.append(("magnitudes", "".join("@print %s\n" % e for e, _ in big) + "@sealed\n", [(i + 1, v) for i, (_, v) in enumerate(big)]))
    cmp_ = [("2 ** 1024 == 2 ** 1024", True), ("2 ** 1024 > 2 ** 1024 - 1", True), ("1e309 < 1e308", False), ("2 ** 1024 + 0.5 != 2 ** 1024", True), ("10 ** 400 / 10 ** 400 == 1", True), ("2 ** -1100 > 0", True)]
    out.append(("magnitudes-compared", "".join("@print %s\n" % e for e, _ in cmp_) + "@sealed\n", [(i + 1, v) for i, (_, v) in enumerate(cmp_)]))
    return out


def check_scale(case, R):
    name, text, expect = scale_texts()[case["i"]]
    R.case(["scale", name], nontrivial=True, sample=False)
    prints, err, _res = read_text(text)
    if err is not None:
        R.violation("defined-expression-rejected:scale:%s" % err["cls"], "a defined expression evaluates to its mathematical value, however many constants / literals / sets the definition holds", {**case, "name": name}, observed=err)
        return
    got = dict(prints)
    for line, v in expect:
        try:
            pv = parse_printed(got[line])
        except Exception:  # noqa
            pv = {"unparsable": got.get(line)}
        if pv != ({"bool": v} if isinstance(v, bool) else {"q": [v.numerator, v.denominator]}):
            R.violation("value-differs:scale:" + name.rsplit("-", 1 if "service" not in name and "message" not in name else 2)[0], "the result equals the mathematical value (identifiers denote the constants of their own section)", {**case, "name": name, "line": line}, observed=got.get(line), expected=str(v))
            return
    R.outcome("scale-ok")


def check_case(case, R):
    if case.get("kind") == "scale":
        return check_scale(case, R)
    if case.get("kind") == "strict-sink":
        return check_strict_sinks(case, R)
    if case.get("kind") == "call-history":
        return H.check_history(case["label"], R, H.project_expressions, 'expression-value-depends-on-earlier-calls', 'constant expressions evaluate to the mathematical value over the definitions of THIS call')
    if case["kind"] == "print":
        check_print(case, R)
    elif case["kind"] == "idents":
        check_idents(case, R)
    else:
        check_sinks(case, R)


def finish(tier, M):
    need = ["value", "rejected", "sink-constant", "sink-capacity", "sink-extent", "sink-assert", "identifier-value"]
    miss = [n for n in need if not M.hist.get(n)]
    if miss:
        raise engine.Vacuous("outcome classes not seen: %s" % miss)
    return {
        "value_producing_cases": M.hist.get("value", 0),
        "rejected_cases": M.hist.get("rejected", 0),
        "literal_alphabet": {"depth1": LITS_FULL, "depth2": LITS_QUICK if tier == "quick" else LITS_THOROUGH},
        "styles": STYLES,
    }
