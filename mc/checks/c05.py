"""
C05 - A definition is accepted if and only if it obeys the static rules of DSDL.

Valid skeletons x rule instances.  Every rule of the property has instances just INSIDE and just OUTSIDE its boundary;
each instance edits one slot of a skeleton.  A definition is expected to be accepted iff every applied instance is an
inside instance (the rules are conjunctive).  Space: no instance, every single instance on every applicable skeleton,
every compatible pair from a sub-catalogue (masking), and the product of inside instances (the "if" direction).
"""
from __future__ import annotations

import copy
import itertools

from .. import api, engine
from .. import histories as H

ID = "C05"
LEVEL = "exploration"
DESIGN_REF = "DESIGN.md 4/C05"
RULE = (
    "case = (skeleton, set of rule instances): 10 valid skeletons (message/service x structure/union x with/without dependency x "
    "deprecated) x {no instance; every single instance of the ~330-entry catalogue on every applicable skeleton; every compatible "
    "pair from a 60-entry sub-catalogue; products of inside instances of different slots}. The catalogue holds, per rule, values "
    "just inside and just outside the boundary: bit widths, cast modes, capacities, attribute / type / namespace names (reserved "
    "words in three letter cases, patterns, near misses, non-ASCII), duplicate names, union arity and padding, void/utf8/byte "
    "placement, deprecated dependencies (direct, arrays, union, response), serialization mode presence/duplication/placement, "
    "extent values, directive placement/duplication/arguments, versions, port-IDs x root namespace x allow_unregulated; several definitions read together: a (deprecated) dependency shared by two users of every "
    "deprecation status / kind / way of use in both name orders, a definition with a (un)regulated port-ID that is also a dependency of an earlier / later sibling or lives in a lookup root, rule violations in a dependency reached through chains. "
    "Non-trivial iff at least one instance is applied; distinct by canonical hash of (skeleton, instance names)"
)
ASSUMPTIONS = [
    "the validity predicate is: every applied instance is an inside instance; instances edit disjoint slots and pairs are restricted to slots declared independent",
    "rules are those enumerated in the statement of C05",
]

DEP_FILES = {
    "sub/Dep.1.0.dsdl": "uint8 v\nuint8 K = 1\n@sealed\n",
    "sub/DepD.1.0.dsdl": "@deprecated\nuint8 v\nuint8 K = 1\n@sealed\n",
}


def section(union=False):
    if union:
        attrs = [["field", "uint8", "a"], ["field", "uint16[<=3]", "b"], ["const", "uint8", "K", "3"]]
    else:
        attrs = [["field", "uint8", "a"], ["pad", "void3"], ["field", "uint16[<=3]", "b"], ["const", "uint8", "K", "3"]]
    return {"union": union, "pre": [], "attrs": attrs, "post": [], "mode": "@sealed", "tail": []}


def skeleton(kind, union, dep, deprecated):
    S = {"root": "vnd", "ns": ["sub"], "short": "T", "ver": [1, 0], "port": None, "allow": False, "deprecated": deprecated, "sections": [section(union)], "kind": kind, "dirs": {}}
    if kind == "service":
        S["sections"].append(section(union))
        for a in S["sections"][1]["attrs"]:
            if a[0] != "pad":
                a[2] = "r" + a[2]
    if dep:
        S["sections"][0]["attrs"].append(["field", "Dep.1.0", "d"])
        S["sections"][-1]["attrs"].append(["field", "{root}.sub.Dep.1.0[2]", "ds"])
    return S


SKELETONS = {
    "msg-struct": lambda: skeleton("message", False, False, False),
    "msg-union": lambda: skeleton("message", True, False, False),
    "msg-struct-dep": lambda: skeleton("message", False, True, False),
    "msg-union-dep": lambda: skeleton("message", True, True, False),
    "msg-struct-deprecated": lambda: skeleton("message", False, True, True),
    "svc-struct": lambda: skeleton("service", False, False, False),
    "svc-union": lambda: skeleton("service", True, False, False),
    "svc-struct-dep": lambda: skeleton("service", False, True, False),
    "svc-union-dep-deprecated": lambda: skeleton("service", True, True, True),
    "svc-struct-deprecated": lambda: skeleton("service", False, False, True),
}


def render(S):
    out = []
    for i, sec in enumerate(S["sections"]):
        lines = []
        if i == 0 and S["deprecated"]:
            lines.append("@deprecated")
        lines += sec["pre"]
        if sec["union"]:
            lines.append("@union")
        for a in sec["attrs"]:
            if a[0] == "field":
                lines.append("%s %s" % (a[1], a[2]))
            elif a[0] == "pad":
                lines.append(a[1])
            elif a[0] == "const":
                lines.append("%s %s = %s" % (a[1], a[2], a[3]))
            else:
                lines.append(a[1])
        lines += sec["post"]
        if sec["mode"] is not None:
            lines.append(sec["mode"])
        lines += sec["tail"]
        out.append("\n".join(lines))
    text = ("\n---\n".join(out) + "\n").replace("{root}", S["root"])
    name = "%s%s.%s.%s.dsdl" % ("" if S["port"] is None else "%s." % S["port"], S["short"], S["ver"][0], S["ver"][1])
    path = "/".join([S["root"]] + S["ns"] + [name])
    files = {path: text}
    for rel, txt in DEP_FILES.items():
        files[S["root"] + "/" + rel] = txt
    return files, path


# ------------------------------------------------------------------------------------------------ catalogue
# instance = (name, slot, inside?, applicability(S) -> bool, edit(S) -> None)
CAT: list = []


def inst(name, slot, inside, edit, applies=lambda S: True):
    CAT.append((name, slot, inside, applies, edit))


def first_field(S, sec=0):
    return next(a for a in S["sections"][sec]["attrs"] if a[0] == "field")


def set_type(t, sec=0):
    def f(S):
        first_field(S, sec)[1] = t
    return f


for t, ok in [("uint1", True), ("uint64", True), ("uint65", False), ("uint0", False), ("uint128", False), ("int1", False), ("int2", True), ("int64", True), ("int65", False),
              ("float16", True), ("float32", True), ("float64", True), ("float17", False), ("float8", False), ("float128", False), ("float1", False),
              ("saturated uint8", True), ("truncated uint8", True), ("saturated int8", True), ("truncated int8", False), ("truncated int64", False),
              ("saturated float32", True), ("truncated float64", True), ("truncated bool", False), ("saturated bool", False), ("bool", True),
              ("truncated  uint8", True), ("truncated uint8[2]", True), ("truncated int8[2]", False), ("void8", False), ("void64", False), ("Uint8", False), ("UINT8", False)]:
    inst("type:" + t, "type0", ok, set_type(t))
    if t in ("uint65", "int1", "float17", "truncated int8", "uint64"):
        inst("rtype:" + t, "rtype0", ok, set_type(t, 1), lambda S: S["kind"] == "service")

for c, ok in [("[1]", True), ("[0]", False), ("[<=0]", False), ("[<=1]", True), ("[<1]", False), ("[<2]", True), ("[1.5]", False), ("[3/2]", False), ("[4/2]", True), ("[true]", False), ("[-1]", False),
              ("[<=-1]", False), ("[2**32]", True), ("['a']", False), ("[{1}]", False), ("[<=255]", True), ("[<=256]", True), ("[1 + 1]", True), ("[]", False), ("[<=]", False), ("[1][1]", False), ("[ 2 ]", True), ("[< 3]", True), ("[<= 3]", True)]:
    inst("capacity:uint8" + c, "type0", ok, set_type("uint8" + c))

RESERVED = ["truncated", "saturated", "true", "false", "bool", "void", "void1", "void64", "uint", "uint8", "int", "int64", "float", "float16", "q1_2", "uq16_8", "optional", "aligned", "const", "struct",
            "super", "template", "enum", "self", "and", "or", "not", "auto", "type", "con", "prn", "aux", "nul", "com1", "com9", "lpt0", "lpt9", "_x_", "__", "_a_b_"]
NEAR = ["truncated_", "strue", "truex", "boolean", "voidx", "void_1", "uint8x", "uintx", "integer", "int_8", "floaty", "q1_", "q_1_2", "uq", "optional1", "con_", "com", "com10", "lpt", "lpt10", "_x", "x_", "_", "a1", "A_b", "nott", "types", "selfie", "andor", "x__y", "_1"]


def set_name(n, sec=0):
    def f(S):
        first_field(S, sec)[2] = n
    return f


for n in RESERVED:
    for v in sorted({n, n.upper(), n.capitalize()}):
        inst("name:" + v, "name0", False, set_name(v))
for n in NEAR:
    inst("name:" + n, "name0", True, set_name(n))
# reserved PATTERNS matched by long names (12+ characters), and long names that only resemble them
for n in ("_calibration_data_", "uint000000000064", "void123456789012", "Float128128128128", "uq1234567_89012", "q12345678_9012345", "int0000000000000000008", "_" + "x" * 40 + "_", "void" + "9" * 30):
    inst("name:" + n, "name0", False, set_name(n))
for n in ("calibration_data_", "_calibration_data", "uint000000000064x", "unsigned_integer_64", "x" * 60, "voidance123456789", "truncated_but_long_name", "optional_extension_field"):
    inst("name:" + n, "name0", True, set_name(n))
for n in ("é", "aé", "a-b", "a.b", "9a", "a b", "\u212a", "\u212aelvin", "x\u212a", "e\u0301", "caf\u00e9", "\uff21bc"):  # not identifiers at all / non-ASCII (incl. characters that NFC / NFKC / case folding map to ASCII)
    inst("name:" + n, "name0", False, set_name(n))
inst("constname:uint8", "cname", False, lambda S: S["sections"][0]["attrs"].__setitem__(-1 if S["sections"][0]["attrs"][-1][0] == "const" else [i for i, a in enumerate(S["sections"][0]["attrs"]) if a[0] == "const"][0], ["const", "uint8", "uint8", "3"]))
inst("constname:OK_1", "cname", True, lambda S: [a.__setitem__(2, "OK_1") for a in S["sections"][0]["attrs"] if a[0] == "const"])


def add_attr(attr, sec=0, at_end=True):
    def f(S):
        attrs = S["sections"][sec]["attrs"]
        attrs.append(list(attr)) if at_end else attrs.insert(0, list(attr))
    return f


inst("dup:field-field", "dup", False, add_attr(["field", "bool", "a"]))
inst("dup:field-const", "dup", False, add_attr(["const", "uint8", "a", "1"]))
inst("dup:const-const", "dup", False, add_attr(["const", "uint8", "K", "1"]))
inst("dup:const-field", "dup", False, add_attr(["field", "bool", "K"]))
inst("dup:case-differs", "dup", True, add_attr(["field", "bool", "A"]))
inst("dup:across-sections", "dup", True, add_attr(["field", "bool", "a"], 1), lambda S: S["kind"] == "service")
inst("dup:in-response", "dup", False, add_attr(["field", "bool", "ra"], 1), lambda S: S["kind"] == "service")
inst("dup:padding-twice", "dup", True, lambda S: (add_attr(["pad", "void3"])(S), add_attr(["pad", "void3"])(S)), lambda S: not S["sections"][0]["union"])


def only_fields(n, union=True):
    def f(S):
        sec = S["sections"][0]
        sec["union"] = union
        sec["attrs"] = [["field", "uint8", "v%d" % i] for i in range(n)] + [["const", "uint8", "K", "3"]]
    return f


for n, ok in [(0, False), (1, False), (2, True), (3, True)]:
    inst("union-arity:%d" % n, "attrs", ok, only_fields(n))
inst("struct-arity:0", "attrs", True, only_fields(0, False))
inst("struct-arity:1", "attrs", True, only_fields(1, False))
inst("union:padding", "pad", False, add_attr(["pad", "void8"]), lambda S: S["sections"][0]["union"])
inst("union:padding-first", "pad", False, add_attr(["pad", "void8"], 0, False), lambda S: S["sections"][0]["union"])
inst("struct:padding", "pad", True, add_attr(["pad", "void64"]), lambda S: not S["sections"][0]["union"])
inst("struct:padding-first", "pad", True, add_attr(["pad", "void1"], 0, False), lambda S: not S["sections"][0]["union"])
inst("padding:void65", "pad", False, add_attr(["pad", "void65"]), lambda S: not S["sections"][0]["union"])
inst("padding:void0", "pad", False, add_attr(["pad", "void0"]), lambda S: not S["sections"][0]["union"])
inst("union:in-response-arity1", "rattrs", False, lambda S: S["sections"][1].update(union=True, attrs=[["field", "uint8", "x"]]), lambda S: S["kind"] == "service")
inst("union:in-response-arity2", "rattrs", True, lambda S: S["sections"][1].update(union=True, attrs=[["field", "uint8", "x"], ["field", "uint8", "y"]]), lambda S: S["kind"] == "service")

for t, ok in [("utf8", False), ("utf8[4]", False), ("utf8[<=4]", True), ("utf8[<5]", True), ("byte", False), ("byte[4]", True), ("byte[<=4]", True), ("void8[2]", False), ("void8[<=2]", False), ("truncated utf8[<=2]", False), ("saturated byte[2]", False)]:
    inst("placement:" + t, "type0", ok, set_type(t))
inst("const:utf8", "constx", False, add_attr(["const", "utf8", "U", "'a'"]))
inst("const:byte", "constx", False, add_attr(["const", "byte", "U", "1"]))
inst("const:array", "constx", False, add_attr(["const", "uint8[2]", "U", "1"]))
inst("const:composite", "constx", False, add_attr(["const", "Dep.1.0", "U", "1"]))
inst("const:void", "constx", False, add_attr(["const", "void8", "U", "1"]))
inst("const:out-of-range", "constx", False, add_attr(["const", "uint8", "U", "256"]))
inst("const:in-range", "constx", True, add_attr(["const", "uint8", "U", "255"]))
inst("const:bool-from-int", "constx", False, add_attr(["const", "bool", "U", "1"]))
inst("const:float-ok", "constx", True, add_attr(["const", "float16", "U", "65504"]))
inst("const:float-over", "constx", False, add_attr(["const", "float16", "U", "65505"]))
inst("const:refers-earlier", "constx", True, add_attr(["const", "uint8", "U", "K + 1"]))
inst("const:refers-undefined", "constx", False, add_attr(["const", "uint8", "U", "NOPE + 1"]))
inst("const:dep-constant", "constx", True, add_attr(["const", "uint8", "U", "Dep.1.0.K"]))

nd = lambda S: not S["deprecated"]  # noqa: E731
for t in ("DepD.1.0", "{root}.sub.DepD.1.0", "DepD.1.0[2]", "DepD.1.0[<=2]", "{root}.sub.DepD.1.0[<3]"):
    inst("deprecated-dep:" + t, "depx", False, add_attr(["field", t, "dd"]), nd)
    inst("deprecated-dep-from-deprecated:" + t, "depx", True, add_attr(["field", t, "dd"]), lambda S: S["deprecated"])
inst("deprecated-dep:in-response", "rdepx", False, add_attr(["field", "DepD.1.0[<=2]", "rdd"], 1), lambda S: S["kind"] == "service" and not S["deprecated"])
inst("deprecated-dep:in-response-from-deprecated", "rdepx", True, add_attr(["field", "DepD.1.0[<=2]", "rdd"], 1), lambda S: S["kind"] == "service" and S["deprecated"])
inst("dep:non-deprecated", "depx", True, add_attr(["field", "Dep.1.0[<=2]", "dd"]))
inst("dep:missing", "depx", False, add_attr(["field", "Nope.1.0", "dd"]))
inst("dep:wrong-version", "depx", False, add_attr(["field", "Dep.1.1", "dd"]))
inst("dep:wrong-case", "depx", False, add_attr(["field", "dep.1.0", "dd"]))
inst("dep:absolute", "depx", True, add_attr(["field", "{root}.sub.Dep.1.0", "dd"]))


def set_mode(m, sec=0):
    def f(S):
        S["sections"][sec]["mode"] = m
    return f


inst("mode:missing", "mode", False, set_mode(None))
inst("mode:sealed-twice", "mode", False, lambda S: S["sections"][0]["tail"].append("@sealed"))
inst("mode:sealed-then-extent", "mode", False, lambda S: S["sections"][0]["tail"].append("@extent 1024"))
inst("mode:extent-then-sealed", "mode", False, lambda S: (set_mode("@extent 1024")(S), S["sections"][0]["tail"].append("@sealed")))
inst("mode:extent-twice", "mode", False, lambda S: (set_mode("@extent 1024")(S), S["sections"][0]["tail"].append("@extent 1024")))
inst("mode:sealed-first", "mode", True, lambda S: (set_mode(None)(S), S["sections"][0]["pre"].append("@sealed")))
inst("mode:extent-first", "mode", False, lambda S: (set_mode(None)(S), S["sections"][0]["pre"].append("@extent 1024")))
inst("mode:extent-before-last-attribute", "mode", False, lambda S: (set_mode(None)(S), S["sections"][0]["attrs"].insert(len(S["sections"][0]["attrs"]) - 1, ["raw", "@extent 1024"])))
inst("mode:extent-then-assert", "mode", True, lambda S: (set_mode("@extent 1024")(S), S["sections"][0]["tail"].append("@assert true")))
inst("mode:extent-then-constant", "mode", False, lambda S: (set_mode("@extent 1024")(S), S["sections"][0]["tail"].append("uint8 LATE = 1")))
inst("mode:sealed-with-expression", "mode", False, set_mode("@sealed 1"))
inst("mode:extent-without-expression", "mode", False, set_mode("@extent"))
inst("mode:missing-in-response", "rmode", False, set_mode(None, 1), lambda S: S["kind"] == "service")
inst("mode:response-extent", "rmode", True, set_mode("@extent 1024", 1), lambda S: S["kind"] == "service")
inst("mode:case", "mode", False, set_mode("@Sealed"))

# the longest representation of section 0 of the unmodified skeletons (bits): computed by hand, verified by the `if` direction
def section_max(S):
    sec = S["sections"][0]
    bits = 0
    sizes = {"uint8": 8, "uint16[<=3]": 8 + 48, "void3": 3, "Dep.1.0": 8, "{root}.sub.Dep.1.0[2]": 16}
    if sec["union"]:
        return 8 + max(sizes[a[1]] for a in sec["attrs"] if a[0] == "field")
    for a in sec["attrs"]:
        if a[0] in ("field", "pad"):
            if a[1] in ("Dep.1.0", "{root}.sub.Dep.1.0[2]"):
                bits = -(-bits // 8) * 8
            bits += sizes[a[1]]
    return -(-bits // 8) * 8


for name, delta, ok in [("max", 0, True), ("max+8", 8, True), ("max-8", -8, False), ("max+4", 4, False), ("max+1", 1, False), ("max+7", 7, False), ("max+64", 64, True)]:
    inst("extent:" + name, "mode", ok, (lambda d: lambda S: set_mode("@extent %d" % (section_max(S) + d))(S))(delta))
for e, ok in [("-8", False), ("64.5 * 8", False), ("1024 / 3", False), ("1024 + 1/2", False), ("2049 / 2", False), ("8193 / 8", False), ("1024.25", False), ("4096 / 2", True), ("1024.0", True), ("true", False), ("'a'", False), ("{1024}", False), ("2 ** 40", True), ("128 * 8", True), ("0", False)]:
    inst("extent-value:" + e, "mode", ok, set_mode("@extent " + e))
inst("extent:zero-for-empty", "attrs", True, lambda S: (S["sections"][0].update(union=False, attrs=[]), set_mode("@extent 0")(S)))

pre = lambda line: (lambda S: S["sections"][0]["pre"].append(line))  # noqa: E731
post = lambda line: (lambda S: S["sections"][0]["post"].append(line))  # noqa: E731
inst("directive:union-twice", "pre", False, pre("@union"), lambda S: S["sections"][0]["union"])
inst("directive:union-after-attribute", "post", False, post("@union"))
inst("directive:union-after-constant", "attrs", False, lambda S: S["sections"][0].update(union=False, attrs=[["const", "uint8", "K0", "1"], ["raw", "@union"], ["field", "uint8", "x"], ["field", "uint8", "y"]]))
inst("directive:union-after-constant-in-response", "rattrs", False, lambda S: S["sections"][1].update(union=False, attrs=[["const", "uint8", "K0", "1"], ["raw", "@union"], ["field", "uint8", "x"], ["field", "uint8", "y"]]), lambda S: S["kind"] == "service")
inst("directive:union-before-constant", "attrs", True, lambda S: S["sections"][0].update(union=True, attrs=[["const", "uint8", "K0", "1"], ["field", "uint8", "x"], ["field", "uint8", "y"]]))
inst("directive:deprecated-after-constant", "attrs", False, lambda S: (S.update(deprecated=False), S["sections"][0].update(union=False, attrs=[["const", "uint8", "K0", "1"], ["raw", "@deprecated"], ["field", "uint8", "x"]])))
inst("directive:union-with-expression", "pre", False, lambda S: (S["sections"][0].update(union=False), S["sections"][0]["pre"].append("@union 1")))
inst("directive:deprecated-twice", "pre", False, pre("@deprecated"), lambda S: S["deprecated"])
inst("directive:deprecated-after-attribute", "post", False, post("@deprecated"))
inst("directive:deprecated-after-union", "pre2", True, lambda S: (S.update(deprecated=False), S["sections"][0]["attrs"].insert(0, ["raw", "@deprecated"])), lambda S: S["deprecated"] and S["sections"][0]["union"] and False)
inst("directive:deprecated-with-expression", "pre", False, pre("@deprecated 1"), lambda S: not S["deprecated"])
inst("directive:deprecated-in-response", "rpre", False, lambda S: S["sections"][1]["pre"].append("@deprecated"), lambda S: S["kind"] == "service")
inst("directive:unknown", "post", False, post("@foo"))
inst("directive:unknown-with-expression", "post", False, post("@foo 1"))
inst("directive:case", "post", False, post("@Assert true"))
inst("directive:assert-true", "post", True, post("@assert true"))
inst("directive:assert-false", "post", False, post("@assert false"))
inst("directive:assert-without-expression", "post", False, post("@assert"))
inst("directive:assert-non-boolean", "post", False, post("@assert 1"))
inst("directive:assert-set", "post", False, post("@assert {true}"))
inst("directive:print-without-expression", "post", True, post("@print"))
inst("directive:print-expression", "post", True, post("@print 1 + 1"))
inst("directive:print-undefined", "post", False, post("@print nope"))
inst("directive:assert-offset", "post", True, post("@assert _offset_.count >= 1"), lambda S: not S["sections"][0]["union"])
inst("marker:twice", "marker", False, lambda S: S["sections"][-1]["tail"].append("---\n@sealed"), lambda S: S["kind"] == "service")
inst("marker:long", "marker", True, lambda S: S["sections"][0]["tail"].append("# trailing comment"))
inst("marker:second-in-message", "marker", False, lambda S: S["sections"][0]["tail"].append("---\n@sealed\n---\n@sealed"), lambda S: S["kind"] == "message")

for v, ok in [((0, 0), False), ((0, 1), True), ((1, 0), True), ((255, 255), True), ((256, 0), False), ((0, 256), False), ((255, 0), True), ((1, 255), True), ((300, 300), False)]:
    inst("version:%d.%d" % v, "ver", ok, (lambda vv: lambda S: S.update(ver=list(vv)))(v))

SUBJ = [0, 1, 6143, 6144, 7167, 7168, 8191, 8192, 65535]
SERV = [0, 1, 255, 256, 383, 384, 511, 512]


def port_ok(kind, root, allow, p):
    if kind == "message":
        if not 0 <= p <= 8191:
            return False
        if allow:
            return True
        return (7168 <= p <= 8191) if root in ("uavcan", "cyphal") else (6144 <= p <= 7167)
    if not 0 <= p <= 511:
        return False
    if allow:
        return True
    return (384 <= p <= 511) if root in ("uavcan", "cyphal") else (256 <= p <= 383)


for root in ("vnd", "uavcan", "cyphal"):
    for allow in (False, True):
        for p in sorted(set(SUBJ + SERV)):
            for kind in ("message", "service"):
                inst("port:%s:%s:%s:%d" % (kind, root, "allow" if allow else "strict", p), "port", port_ok(kind, root, allow, p),
                     (lambda r, al, pp: lambda S: S.update(root=r, allow=al, port=pp))(root, allow, p), (lambda k: lambda S: S["kind"] == k)(kind))

for n, ok in [("T", True), ("t", True), ("T1", True), ("_T", True), ("T_", True), ("9T", False), ("T-x", False), ("T x", False), ("uint8", False), ("Uint8", False), ("Bool", False), ("TRUE", False),
              ("Té", False), ("é", False), ("\u212a", False), ("_x_", False), ("Optional", False), ("Con", False), ("COM1", False), ("Com10", True), ("Type", False), ("Types", True), ("T" * 247, True), ("T" * 248, False)]:
    inst("shortname:" + (n if len(n) < 20 else "T*%d" % len(n)), "short", ok, (lambda nn: lambda S: S.update(short=nn))(n), lambda S: S["kind"] == "message")
for n, ok in [("sub2", True), ("Sub", True), ("_s", True), ("uint8", False), ("con", False), ("a-b", False), ("9x", False), ("x.y", False), ("é", False), ("\u212a", False), ("_x_", False), ("self", False), ("selfx", True), ("s p", False)]:
    inst("namespace:" + n, "ns", ok, (lambda nn: lambda S: S.update(ns=[nn]) or DEPMOVE(S, nn))(n), lambda S: not any(a[0] == "field" and "Dep" in a[1] for sec in S["sections"] for a in sec["attrs"]))
for n, ok in [("vnd2", True), ("Vnd", True), ("uint8", False), ("bool", False), ("a-b", False), ("9x", False), ("é", False), ("_x_", False), ("lpt1", False)]:
    inst("root:" + n, "root", ok, (lambda nn: lambda S: S.update(root=nn))(n))
inst("namespace:deep", "ns", True, lambda S: S.update(ns=["sub", "a", "b", "c"]), lambda S: not any(a[0] == "field" and "Dep" in a[1] for sec in S["sections"] for a in sec["attrs"]))
inst("namespace:none", "ns", True, lambda S: S.update(ns=[]), lambda S: not any(a[0] == "field" and "Dep" in a[1] for sec in S["sections"] for a in sec["attrs"]))


def DEPMOVE(S, nn):
    return None


PAIR_SUB = [
    "type:uint65", "type:uint64", "type:truncated int8", "capacity:uint8[0]", "capacity:uint8[<=1]", "name:uint8", "name:Truncated", "name:com10", "name:_x_", "dup:field-field", "dup:case-differs",
    "union:padding", "struct:padding", "placement:utf8", "placement:utf8[<=4]", "placement:byte[4]", "const:out-of-range", "const:in-range", "deprecated-dep:DepD.1.0[<=2]", "dep:non-deprecated",
    "dep:missing", "mode:missing", "mode:sealed-twice", "mode:sealed-first", "mode:extent-before-last-attribute", "extent:max", "extent:max-8", "extent:max+4", "directive:union-after-attribute",
    "directive:deprecated-after-attribute", "directive:assert-false", "directive:assert-true", "directive:unknown", "directive:print-without-expression", "marker:twice", "version:0.0", "version:0.1",
    "version:256.0", "version:255.255", "port:message:vnd:strict:6143", "port:message:vnd:strict:6144", "port:message:vnd:allow:6143", "port:message:uavcan:strict:7168", "port:message:vnd:strict:8192",
    "port:service:vnd:strict:255", "port:service:vnd:strict:256", "port:service:vnd:allow:512", "shortname:uint8", "shortname:T1", "shortname:\u212a", "namespace:con", "namespace:Sub", "root:uint8", "root:Vnd",
    "rtype:uint65", "mode:missing-in-response", "deprecated-dep:in-response", "union:in-response-arity1", "directive:deprecated-in-response",
]
# slots whose instances cannot be combined because they rewrite the same or dependent parts
CONFLICTS = {
    frozenset(["type0", "attrs"]), frozenset(["name0", "attrs"]), frozenset(["mode", "attrs"]), frozenset(["mode", "type0"]), frozenset(["mode", "pad"]), frozenset(["mode", "depx"]), frozenset(["mode", "dup"]),
    frozenset(["dup", "attrs"]), frozenset(["dup", "name0"]), frozenset(["pad", "attrs"]), frozenset(["cname", "attrs"]), frozenset(["constx", "attrs"]), frozenset(["depx", "attrs"]), frozenset(["mode", "post"]),
    frozenset(["mode", "constx"]), frozenset(["root", "port"]), frozenset(["ns", "depx"]), frozenset(["short", "port"]), frozenset(["pre", "attrs"]), frozenset(["post", "attrs"]),
    frozenset(["dup", "cname"]), frozenset(["constx", "cname"]), frozenset(["constx", "depx"]),
}
BY_NAME = {}


def build_index():
    if not BY_NAME:
        for c in CAT:
            assert c[0] not in BY_NAME, c[0]
            BY_NAME[c[0]] = c


# pairs whose evaluation makes the implementation expand a huge offset set numerically (minutes; termination is C16's subject)
SLOW_PAIRS = {frozenset(["capacity:uint8[2**32]", "directive:assert-offset"])}


def compatible(a, b) -> bool:
    if frozenset([a[0], b[0]]) in SLOW_PAIRS:
        return False
    return a[1] != b[1] and frozenset([a[1], b[1]]) not in CONFLICTS


# ---------------------------------------------------------------------------------------------------------------
# rules that concern SEVERAL definitions read together: one dependency object is shared by all its users, and a definition may be
# reached first as a dependency and only later (or never) as a target
def multi_cases():
    kinds = {"struct": ("", "@sealed"), "union": ("@union\nuint8 alt\n", "@sealed"), "delimited": ("", "@extent 64 * 8"), "service": ("", "@sealed\n---\n@sealed")}
    uses = {"direct": "Old.1.0 o", "array": "Old.1.0[2] o", "vararray": "Old.1.0[<=2] o"}
    # (a) a (deprecated / live) dependency with two users of every deprecation status, kind and way of use, in both name orders
    for old_dep in (True, False):
        for (k1, k2) in itertools.product(kinds, repeat=2):
            for (u1, u2) in itertools.product(uses, repeat=2):
                if k1 != k2 and u1 != u2 and (k1, u1) != ("struct", "direct"):
                    continue  # full product only along the diagonal and against the plain first user
                for d1, d2 in itertools.product((True, False), repeat=2):
                    files = {"vnd/Old.1.0.dsdl": ("@deprecated\n" if old_dep else "") + "uint8 v\n@sealed\n"}
                    for nm, k, u, d in (("Alpha", k1, u1, d1), ("Beta", k2, u2, d2)):
                        pre, mode = kinds[k]
                        files["vnd/%s.1.0.dsdl" % nm] = ("@deprecated\n" if d else "") + pre + uses[u] + "\n" + mode + "\n"
                    valid = not old_dep or (d1 and d2)
                    yield {"kind": "multi", "family": "shared-dependency", "files": files, "root": "vnd", "valid": valid, "allow": False, "label": [old_dep, k1, u1, d1, k2, u2, d2]}
    # (b) a definition with a fixed port-ID that is ALSO a dependency of a sibling sorting before / after it, or lives in a lookup root
    for port, allow in itertools.product((6143, 6144, 7167, 7168, 100), (False, True)):
        ok = allow or 6144 <= port <= 7167
        body = "uint8 v\n@sealed\n"
        for referrer in ("Alpha", "Zulu", None):
            files = {"vnd/%d.Middle.1.0.dsdl" % port: body}
            if referrer:
                files["vnd/%s.1.0.dsdl" % referrer] = "Middle.1.0 m\n@sealed\n"
            yield {"kind": "multi", "family": "port-of-dependency", "files": files, "root": "vnd", "valid": ok, "allow": allow, "label": [port, allow, referrer, "same-root"]}
        files = {"lk/%d.Middle.1.0.dsdl" % port: body, "vnd/User.1.0.dsdl": "lk.Middle.1.0 m\n@sealed\n"}
        yield {"kind": "multi", "family": "port-of-dependency", "files": files, "root": "vnd", "lookups": ["lk"], "valid": ok, "allow": allow, "label": [port, allow, "User", "lookup-root"]}
        files = {"uavcan/%d.Middle.1.0.dsdl" % port: body, "vnd/User.1.0.dsdl": "uavcan.Middle.1.0 m\n@sealed\n"}
        yield {"kind": "multi", "family": "port-of-dependency", "files": files, "root": "vnd", "lookups": ["uavcan"], "valid": allow or 7168 <= port <= 8191, "allow": allow, "label": [port, allow, "User", "standard-lookup-root"]}
    # (d) long structures (17+ fields, composites late in the list): the extent rule is judged against the real longest representation
    for n in (16, 17, 20, 33):
        for lead in ("bool", "uint5", "uint8"):
            fields = ["%s f%d" % (lead if i % 16 == 0 else ("uint3" if i % 3 else "uint8"), i) for i in range(n)]
            fields[n - 2] = "Old.1.0 late"
            bits = 0
            for f in fields:
                t = f.split()[0]
                w = {"bool": 1, "uint5": 5, "uint8": 8, "uint3": 3, "Old.1.0": 8}[t]
                if t == "Old.1.0":
                    bits = -(-bits // 8) * 8
                bits += w
            mx = -(-bits // 8) * 8
            for delta, ok in ((0, True), (-8, False), (8, True), (4, False)):
                files = {"vnd/Old.1.0.dsdl": "uint8 v\n@sealed\n", "vnd/Long.1.0.dsdl": "\n".join(fields) + "\n@extent %d\n" % (mx + delta)}
                yield {"kind": "multi", "family": "long-structure-extent", "files": files, "root": "vnd", "valid": ok, "allow": False, "label": [n, lead, delta]}
    # (e) minor versions whose numbers have different digit counts: a port-ID may be ADDED by the newer one, never removed
    for lo, hi in ((2, 10), (9, 10), (7, 42), (1, 10), (9, 100), (99, 100), (2, 3)):
        for port_on, ok in (("newer", True), ("older", False), ("both", True), ("none", True)):
            files = {"vnd/%sStatus.1.%d.dsdl" % ("6200." if port_on in ("older", "both") else "", lo): "uint8 a\n@sealed\n", "vnd/%sStatus.1.%d.dsdl" % ("6200." if port_on in ("newer", "both") else "", hi): "uint8 a\n@sealed\n"}
            yield {"kind": "multi", "family": "minor-version-port", "files": files, "root": "vnd", "valid": ok, "allow": False, "label": [lo, hi, port_on]}
    # (f) valid names that BEGIN with a type keyword or reserved word, as root namespace, nested namespace and short type name, referred
    #     to by full and by relative name in every position where a type can be written
    kw_names = ["bytestream", "boolean", "utf8text", "uint8ext", "int8x", "float32s", "voidance", "void1x", "saturatedx", "truncated_", "byte_count", "bytes", "Uint8s", "u", "in", "truex"]
    kw_names = [n for n in kw_names if n not in RESERVED]
    for n in kw_names:
        if n in ("uint", "float"):
            continue  # reserved words themselves (listed in RESERVED under other spellings) are not names
        positions = {"field": "%s a", "farr": "%s[2] a", "varr": "%s[<=2] a", "varr-lt": "%s[<3] a"}
        for pname, pos in positions.items():
            for layout in ("struct", "union", "service-response"):
                refs = {"root": "%s.Chunk.1.0" % n, "nested": "vnd.%s.Inner.1.0" % n, "short-full": "vnd.%s.1.0" % n, "short-relative": "%s.1.0" % n}
                for rname, ref in refs.items():
                    files = {"%s/Chunk.1.0.dsdl" % n: "uint8 v\n@sealed\n", "vnd/%s/Inner.1.0.dsdl" % n: "uint8 v\n@sealed\n", "vnd/%s.1.0.dsdl" % n: "uint8 v\n@sealed\n"}
                    line = pos % ref
                    if layout == "struct":
                        text = line + "\n@sealed\n"
                    elif layout == "union":
                        text = "@union\nuint8 other\n" + line + "\n@sealed\n"
                    else:
                        text = "@sealed\n---\n" + line + "\n@sealed\n"
                    files["vnd/User.1.0.dsdl"] = text
                    if pname != "field" and layout != "struct" and rname != "root":
                        continue  # full product along the struct / field axes
                    yield {"kind": "multi", "family": "keyword-prefixed-names", "files": files, "root": "vnd", "lookups": [n], "valid": True, "allow": False, "label": [n, pname, layout, rname]}
    # (g) the naming rules apply to names taken from the FILE SYSTEM as well: short type names, nested namespace components and the root
    #     namespace name, incl. names that are well-formed except for one trailing / leading control character
    disk_names = [(n, False) for n in RESERVED] + [(n, True) for n in NEAR] + [(n, False) for n in ("Thing\n", "\nThing", "Thing\r", "Thing\t", "Thing ", "Th\ning", "Thing\n\n", "Thing\x0b", "Thing\u2028", "9Thing", "Th-ing", "Thing\u00e9", "\u212aelvin")]
    for n, ok in disk_names:
        yield {"kind": "multi", "family": "names-on-disk", "files": {"vnd/%s.1.0.dsdl" % n: "@sealed\n", "vnd/Good.1.0.dsdl": "@sealed\n"}, "root": "vnd", "valid": ok, "allow": False, "label": [n, "short-name"]}
        yield {"kind": "multi", "family": "names-on-disk", "files": {"vnd/%s/A.1.0.dsdl" % n: "@sealed\n", "vnd/Good.1.0.dsdl": "@sealed\n"}, "root": "vnd", "valid": ok, "allow": False, "label": [n, "namespace-component"]}
        yield {"kind": "multi", "family": "names-on-disk", "files": {"%s/A.1.0.dsdl" % n: "@sealed\n"}, "root": n, "valid": ok, "allow": False, "label": [n, "root-namespace"]}
    # (c) a broken dependency reached through several users / through a chain: every static rule applies to what is read, wherever it is read from
    for bad, ok in (("uint65 a\n@sealed\n", False), ("uint8 a\n", False), ("@union\nuint8 a\n@sealed\n", False), ("uint8 a\n@extent 4\n", False), ("uint8 a\n@sealed\n", True)):
        for chain in (1, 2, 3):
            files = {"lk/Leaf.1.0.dsdl": bad}
            prev = "lk.Leaf.1.0"
            for i in range(chain - 1):
                files["lk/Mid%d.1.0.dsdl" % i] = "%s x\n@sealed\n" % prev
                prev = "lk.Mid%d.1.0" % i
            files["vnd/A.1.0.dsdl"] = "%s x\n@sealed\n" % prev
            files["vnd/B.1.0.dsdl"] = "%s[<=2] x\n@sealed\n" % prev
            yield {"kind": "multi", "family": "rule-in-dependency", "files": files, "root": "vnd", "lookups": ["lk"], "valid": ok, "allow": False, "label": [bad, chain]}


def check_multi(case, R: engine.Acc):
    R.case([case["family"], case["label"]], nontrivial=True, sample=(case["family"] == "shared-dependency" and not case["valid"] and len(R.samples) < 2))
    o = api.read_namespace_tree(case["files"], case["root"], case.get("lookups"), allow_unregulated_fixed_port_id=case["allow"])
    if o.error is None:
        if case["valid"]:
            R.outcome("accepted-valid")
            R.outcome("multi-accepted")
        else:
            R.outcome("accepted-INVALID")
            R.violation("invalid-accepted:multi:" + case["family"], "a definition that violates a static rule is rejected, whichever other definitions are read with it and in whatever order", case, observed="accepted", expected="InvalidDefinitionError")
    elif not o.error["ide"]:
        R.violation("rejection-not-InvalidDefinitionError:%s@%s" % (o.error["cls"], o.error.get("culprit")), "every rejection is an InvalidDefinitionError", case, observed=o.error)
    elif case["valid"]:
        R.outcome("rejected-VALID")
        R.violation("valid-rejected:multi:" + case["family"], "definitions that satisfy the static rules are accepted", case, observed=o.error, expected="accepted")
    else:
        R.outcome("rejected-invalid")
        R.outcome("multi-rejected")


def plan(tier):
    build_index()
    shards = [{"kind": "single", "skeleton": s} for s in SKELETONS]
    shards += [{"kind": "multi", "part": p, "parts": 8} for p in range(8)]
    for s in SKELETONS:
        for p in range(4):
            shards.append({"kind": "pairs", "skeleton": s, "part": p, "parts": 4})
    shards += [{"kind": "inside-product", "skeleton": s} for s in SKELETONS]
    shards += H.plan_shards(['flags', 'faults', 'minor-versions'])
    return shards


def cases(shard, tier):
    if shard.get("kind") == "call-histories":
        yield from H.cases_of(shard)
        return
    build_index()
    if shard["kind"] == "multi":
        for i, c in enumerate(multi_cases()):
            if i % shard["parts"] == shard["part"]:
                yield c
        return
    sk = shard["skeleton"]
    S0 = SKELETONS[sk]()
    if shard["kind"] == "single":
        yield {"skeleton": sk, "instances": []}
        for c in CAT:
            if c[3](S0):
                yield {"skeleton": sk, "instances": [c[0]]}
    elif shard["kind"] == "pairs":
        sub = [BY_NAME[n] for n in PAIR_SUB if BY_NAME[n][3](S0)]
        if tier != "quick":
            sub = [c for c in CAT if c[3](S0) and (c[0] in PAIR_SUB or hash_stable(c[0]) % 4 == 0)]
        i = 0
        for a, b in itertools.combinations(sub, 2):
            if compatible(a, b):
                if i % shard["parts"] == shard["part"]:
                    yield {"skeleton": sk, "instances": [a[0], b[0]]}
                i += 1
    else:
        # the "if" direction: products of inside instances of pairwise compatible slots (one per slot)
        by_slot: dict = {}
        for c in CAT:
            if c[2] and c[3](S0):
                by_slot.setdefault(c[1], []).append(c)
        slots = [s for s in ("type0", "name0", "ver", "port", "post", "constx") if s in by_slot]
        per = 3 if tier == "quick" else 5
        pools = [by_slot[s][:: max(1, len(by_slot[s]) // per)][: per + 1] for s in slots]
        for combo in itertools.product(*pools):
            ok = all(compatible(a, b) for a, b in itertools.combinations(combo, 2))
            if ok:
                yield {"skeleton": sk, "instances": [c[0] for c in combo]}


def hash_stable(s: str) -> int:
    return engine.h64(s)


def check_case(case, R: engine.Acc):
    if case.get("kind") == "call-history":
        return H.check_history(case["label"], R, H.project_verdict, 'verdict-depends-on-earlier-calls', 'a definition set is accepted iff it obeys the rules under the flags of THIS call')
    build_index()
    if case.get("kind") == "multi":
        return check_multi(case, R)
    S = SKELETONS[case["skeleton"]]()
    insts = [BY_NAME[n] for n in case["instances"]]
    # mode/extent instances read the attribute list: apply them last
    for c in sorted(insts, key=lambda c: c[1] == "mode"):
        c[4](S)
    expect_valid = all(c[2] for c in insts)
    files, path = render(S)
    R.case(case, nontrivial=bool(insts), sample=(len(insts) == 2 and not expect_valid and case["skeleton"] == "svc-struct-dep"))
    try:
        o = api.read_namespace_tree(files, S["root"], allow_unregulated_fixed_port_id=S["allow"])
    except (OSError, ValueError):
        R.counters["unwritable"] += 1
        return
    one = dict(case)
    if o.error is None:
        if expect_valid:
            R.outcome("accepted-valid")
        else:
            R.outcome("accepted-INVALID")
            bad = [c[0] for c in insts if not c[2]]
            R.violation("invalid-accepted:" + bad[0], "a definition that violates a static rule is rejected", one, observed={"accepted": True, "text": files[path], "path": path}, expected="InvalidDefinitionError because of %s" % bad)
        return
    if not o.error["ide"]:
        R.outcome("foreign-exception")
        R.violation("rejection-not-InvalidDefinitionError:%s@%s" % (o.error["cls"], o.error.get("culprit")), "every rejection is an InvalidDefinitionError", one, observed={"error": o.error, "text": files[path], "path": path})
        return
    if expect_valid:
        R.outcome("rejected-VALID")
        R.violation("valid-rejected:" + ((case["instances"][0] + ("+%d" % (len(case["instances"]) - 1) if len(case["instances"]) > 1 else "")) if case["instances"] else "skeleton"), "a definition that satisfies the static rules is accepted", one, observed={"error": o.error, "text": files[path], "path": path}, expected="accepted")
    else:
        R.outcome("rejected-invalid")


def finish(tier, M):
    need = ["accepted-valid", "rejected-invalid", "multi-accepted", "multi-rejected"]
    miss = [n for n in need if not M.hist.get(n)]
    if miss:
        raise engine.Vacuous("outcome classes not seen: %s" % miss)
    build_index()
    return {"catalogue_size": len(CAT), "inside_instances": sum(1 for c in CAT if c[2]), "outside_instances": sum(1 for c in CAT if not c[2]), "pair_sub_catalogue": len(PAIR_SUB)}
