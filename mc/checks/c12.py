"""
C12 - Constants are always compliant with their declared type.

Every (constant type, initializer) pair of the boundary alphabet, end to end through read_namespace: accepted iff
compliant; the stored value is the exact rational / boolean / code point; rejection is InvalidDefinitionError.
"""
from __future__ import annotations

from fractions import Fraction

from .. import api, engine
from .. import histories as H
from ..ref import codec as C

ID = "C12"
LEVEL = "exploration"
DESIGN_REF = "DESIGN.md 4/C12"
RULE = (
    "case = (constant type, initializer): bool; (u)intN saturated, uintN truncated, N=1..64; float16/32/64 both cast modes; "
    "inadmissible carriers void8, uint8[2], uint8[<=2], a composite, utf8, byte, utf8[<=2]; initializers {min-1,min,min+1,-1,0,1,"
    "max-1,max,max+1,max+1/2,1/2} per integer type, exact float limits and limit +- 10**-30, 0.1, booleans, strings of length "
    "0/1/2, non-ASCII and escaped code points, a set. Compliant initializers of one type are read in one definition (a rejection is "
    "re-run one by one), non-compliant ones one definition each. Non-trivial iff the initializer is within +-1 of a boundary or of "
    "the wrong kind; distinct by canonical hash of (type, initializer)"
)
ASSUMPTIONS = [
    "compliance rules as stated in C12 (Specification section on constants); constant expressions are evaluated correctly (C04)",
]


def lit(f) -> str:
    f = Fraction(f)
    if f.denominator == 1:
        return str(f.numerator) if f >= 0 else "-%d" % -f.numerator
    s = "%d / %d" % (abs(f.numerator), f.denominator)
    return s if f >= 0 else "-(%s)" % s


def sum_product(src: str) -> Fraction:
    """exact value of a tiny expression made of real literals and '*' (reference arithmetic on decimal strings)"""
    v = Fraction(1)
    for part in src.split("*"):
        v *= Fraction(part.strip().replace("_", ""))
    return v


def constant_types():
    out = [("bool", ["bool"])]
    for n in range(1, 65):
        out.append(("uint%d" % n, ["uint", n, "s"]))
        out.append(("truncated uint%d" % n, ["uint", n, "t"]))
        if n >= 2:
            out.append(("int%d" % n, ["int", n]))
            if n in (2, 8, 64):
                out.append(("saturated int%d" % n, ["int", n]))
    for n in (16, 32, 64):
        out.append(("float%d" % n, ["float", n, "s"]))
        out.append(("truncated float%d" % n, ["float", n, "t"]))
    for bad in ("void8", "uint8[2]", "uint8[<=2]", "Dep.1.0", "utf8", "byte", "utf8[<=2]", "byte[2]"):
        out.append((bad, ["carrier", bad]))
    return out


STRINGS = [("''", ""), ("'a'", "a"), ('"z"', "z"), ("'ab'", "ab"), ("'é'", "é"), ("'\\u0000'", "\x00"), ("'\\u007f'", "\x7f"), ("'\\u0080'", "\x80"), ("'\\n'", "\n"), ("'€'", "€"), ("'\\ud800'", "\ud800"), ("'\\U0010ffff'", "\U0010ffff"),
           ("'a\u00e9'", "a\u00e9"), ("'\u00e9a'", "\u00e9a"), ("'\u00e9a\u20ac'", "\u00e9a\u20ac"), ("'a\\u00e9'", "a\u00e9"), ("' '", " "), ("'\\t'", "\t"), ("'~'", "~"), ("'aa'", "aa"),
           # non-ASCII characters whose canonical (NFC) form is an ASCII character: still not ASCII string literals
           ("'\\u212a'", "\u212a"), ("'\u212a'", "\u212a"), ("'\\u037e'", "\u037e"), ("'\u1fef'", "\u1fef"), ("'\\u212b'", "\u212b"),
           # one ASCII character next to characters that cannot be encoded at all (lone surrogates): two characters, not one
           ("'A\\ud800'", "A\ud800"), ("'\\udfffz'", "\udfffz"), ("'\\ud800\\udc00'", "\ud800\udc00"), ("'\\udc00a\\ud800'", "\udc00a\ud800"), ("'\\ud83d\\ude00'", "\ud83d\ude00")]


def initializers(desc):
    """[(source text, kind, python value)]"""
    out = []
    k = desc[0]
    nums = [Fraction(0), Fraction(1), Fraction(-1), Fraction(1, 2), Fraction(2), Fraction(255), Fraction(256), Fraction(1, 10)]
    if k in ("uint", "int"):
        lo, hi = C.int_range(desc)
        nums += [Fraction(x) for x in (lo - 1, lo, lo + 1, hi - 1, hi, hi + 1)] + [Fraction(2 * hi + 1, 2), Fraction(2 * lo - 1, 2), Fraction(2 * hi - 1, 2)]
    elif k == "float":
        mx = C.float_max(desc[1])
        eps = Fraction(1, 10**30)
        nums += [mx, -mx, mx + eps, mx - eps, -mx - eps, -mx + eps, mx + 1, 2 * mx, Fraction(65504), Fraction(65505), Fraction(1, 3)]
    else:
        nums += [Fraction(127), Fraction(-128)]
    seen = set()
    for f in nums:
        if f not in seen:
            seen.add(f)
            out.append((lit(f), "q", f))
    # the same kinds of values written as real literals (point and exponent notation, negative exponents): exact decimal values
    for src in ("1e-1", "1.5e-3", "25e-2", "3E-1", "1e2", "0.1", "1e-1 * 10", "1e-1 * 100", "2.5e-1 * 4", "1_0.0", "1e0"):
        out.append((src, "q", sum_product(src)))
    if k == "float":
        mxs = str(C.float_max(desc[1]).numerator)
        out.append((mxs + "00000000000000000001e-20", "q", C.float_max(desc[1]) + Fraction(1, 10**20)))
        out.append((mxs + "00000000000000000000e-20", "q", C.float_max(desc[1])))
        out.append(("-" + mxs + "00000000000000000001e-20", "q", -C.float_max(desc[1]) - Fraction(1, 10**20)))
    elif k in ("uint", "int"):
        lo, hi = C.int_range(desc)
        out.append(("%d0001e-4" % hi, "q", Fraction(hi * 10000 + 1, 10000)))
        out.append(("%d0000e-4" % hi, "q", Fraction(hi)))
    # literals with more than 28 significant digits and exponents beyond any float / Decimal context: the value is the EXACT rational
    z = "0" * 33
    for base in ((1, 255, 65504, 3) if k != "float" else (1, 65504, 3)):
        out.append(("%d.%s1" % (base, z), "q", Fraction(base) + Fraction(1, 10**34)))
        out.append(("%d.%s0" % (base, z), "q", Fraction(base)))
        out.append(("%d + 2 ** -5000" % base, "q", Fraction(base) + Fraction(1, 2**5000)))
        out.append(("%d * 2 ** 5000 / 2 ** 5000" % base, "q", Fraction(base)))
        out.append(("%d + 10 ** -400" % base, "q", Fraction(base) + Fraction(1, 10**400)))
    out.append(("0.%s1" % z, "q", Fraction(1, 10**34)))
    out.append(("2 ** 5000 / 2 ** 4990", "q", Fraction(1024)))
    out.append(("123456789012345678901234567890123456789 / 123456789012345678901234567890123456789", "q", Fraction(1)))
    out += [("true", "bool", True), ("false", "bool", False)]
    for src, s in STRINGS:
        out.append((src, "str", s))
    out.append(("{1}", "set", None))
    out.append(("{'a'}", "set", None))
    return out


def expected(desc, kind, value):
    """None = rejected, else the stored value in mc.dump.value() form."""
    k = desc[0]
    if k == "bool":
        return {"bool": value} if kind == "bool" else None
    if k in ("uint", "int"):
        lo, hi = C.int_range(desc)
        if kind == "q":
            if value.denominator == 1 and lo <= value <= hi:
                return {"q": [value.numerator, 1]}
            return None
        if kind == "str":
            b = value.encode("utf-8", "surrogatepass")
            if len(b) == 1 and k == "uint" and desc[1] == 8:
                return {"q": [b[0], 1]}
            return None
        return None
    if k == "float":
        if kind == "q":
            mx = C.float_max(desc[1])
            if -mx <= value <= mx:
                return {"q": [value.numerator, value.denominator]}
        return None
    return None  # carriers never hold constants


def near_boundary(desc, kind, value) -> bool:
    if kind != "q":
        return True
    if desc[0] in ("uint", "int"):
        lo, hi = C.int_range(desc)
        return min(abs(value - lo), abs(value - hi)) <= 1 or value.denominator != 1
    if desc[0] == "float":
        mx = C.float_max(desc[1])
        return min(abs(value - mx), abs(value + mx)) <= 1
    return True


def check_many_types(case, R: engine.Acc):
    """More constant types in ONE process than any bounded per-type cache holds (127 integer types, twice), then the first ones again:
    the range that decides acceptance must still be the type's own."""
    types = [("uint%d" % n, ["uint", n, "s"]) for n in range(1, 65)] + [("int%d" % n, ["int", n]) for n in range(2, 65)]
    order = types if case["order"] == "ascending" else list(reversed(types))
    for rnd in range(2):
        lines = []
        for i, (src, d) in enumerate(order):
            lo, hi = C.int_range(d)
            lines += ["%s A%d_%d = %d" % (src, rnd, i, hi), "%s B%d_%d = %d" % (src, rnd, i, lo)]
        o = api.read_namespace_tree({"rns/T.1.0.dsdl": "\n".join(lines) + "\n@sealed\n"}, "rns")
        if o.error is not None:
            R.violation("compliant-initializer-rejected:many-types", "a compliant initializer is accepted", case, observed=o.error)
            return
    # ... and now every type once more, alone, just beyond each end of its range
    for src, d in order[:12] + order[60:66] + order[-12:]:
        lo, hi = C.int_range(d)
        for v in (hi + 1, lo - 1):
            R.case(["many-types", case["order"], src, v], nontrivial=True, sample=False)
            o = api.read_namespace_tree({"rns/T.1.0.dsdl": "%s X = %d\n@sealed\n" % (src, v)}, "rns")
            if o.error is None:
                R.outcome("noncompliant-accepted")
                R.violation("noncompliant-initializer-accepted:after-many-types", "a non-compliant initializer is rejected, however many other constant types the process has seen", {**case, "type": src, "value": v}, observed="accepted", expected="InvalidDefinitionError")
                return
        o = api.read_namespace_tree({"rns/T.1.0.dsdl": "%s X = %d\n%s Y = %d\n@sealed\n" % (src, hi, src, lo)}, "rns")
        if o.error is not None:
            R.violation("compliant-initializer-rejected:after-many-types", "a compliant initializer is accepted", {**case, "type": src}, observed=o.error)
            return
    R.outcome("many-types-ok")


API_FLOATS = [0.0, -0.0, 1.0, 0.1, 0.5, 255.0, 255.5, 256.0, -128.0, -129.0, 65504.0, 65505.0, 65520.0, 3.4028234663852886e38, 3.4028235e38, 3.402823466385289e38, -3.4028234663852886e38,
              1.7976931348623157e308, -1.7976931348623157e308, 2.0**63, -(2.0**63), 2.0**64, 2.0**63 - 1024.0, 2.0**53 + 2.0, 4**31.5, 1e-320, 5e-324, 1e22, 1e23, 123456789.125]


def check_api_constants(case, R: engine.Acc):
    """Constants built with the PUBLIC constructors; values handed over as Rational(int | Fraction | float), Boolean, String.  A float
    is the rational number it denotes exactly (binary expansion), not its shortest decimal spelling."""
    import pydsdl
    from ..gen import types as T

    desc = case["desc"]
    dtype = T.build(desc)
    values = [("q", Fraction(f), (lambda f=f: pydsdl.Rational(f)), "float:%r" % f) for f in API_FLOATS]
    for q in (Fraction(0), Fraction(1), Fraction(-1), Fraction(1, 3), Fraction(255), Fraction(256), Fraction(2**64 - 1), Fraction(2**64), Fraction(-(2**63)), Fraction(2**63 - 1), Fraction(10**40), C.float_max(16), C.float_max(32), C.float_max(64), C.float_max(64) + 1):
        values.append(("q", q, (lambda q=q: pydsdl.Rational(q)), "fraction:%s" % q))
        if q.denominator == 1:
            values.append(("q", q, (lambda q=q: pydsdl.Rational(int(q))), "int:%s" % q))
    values += [("bool", True, lambda: pydsdl.Boolean(True), "bool:true"), ("bool", False, lambda: pydsdl.Boolean(False), "bool:false"), ("str", "a", lambda: pydsdl.String("a"), "str:a"), ("str", "ab", lambda: pydsdl.String("ab"), "str:ab"), ("str", "\u212a", lambda: pydsdl.String("\u212a"), "str:kelvin")]
    from .. import dump

    for kind, pv, mk, label in values:
        exp = expected(desc, kind, pv)
        one = {"kind": "api-constants", "desc": desc, "value": label}
        R.case([desc, label], nontrivial=True, sample=False)
        try:
            c = pydsdl.Constant(dtype, "K", mk())
            got = dump.value(c.value)
        except pydsdl.InvalidDefinitionError:
            got = None
        if exp is None and got is not None:
            R.outcome("noncompliant-accepted")
            R.violation("noncompliant-initializer-accepted:api:%s:%s" % (desc[0], kind), "a non-compliant initializer is rejected", one, observed=got, expected="InvalidDefinitionError")
        elif exp is not None and got is None:
            R.outcome("compliant-rejected")
            R.violation("compliant-initializer-rejected:api:" + desc[0], "a compliant initializer is accepted", one, expected=exp)
        elif exp != got:
            R.outcome("value-differs")
            R.violation("stored-value-differs:api:" + desc[0], "the stored value is the exact rational / boolean / code point", one, observed=got, expected=exp)
        else:
            R.outcome("api-ok")


def plan(tier):
    shards = [{"part": p, "parts": 32} for p in range(32)]
    shards += [{"kind": "many-types"}, {"kind": "api-constants"}]
    shards += H.plan_shards(['nested-revisions'])
    return shards


def cases(shard, tier):
    if shard.get("kind") == "call-histories":
        yield from H.cases_of(shard)
        return
    if shard.get("kind") == "api-constants":
        for _src, desc in constant_types():
            if desc[0] != "carrier":
                yield {"kind": "api-constants", "desc": desc}
        return
    if shard.get("kind") == "many-types":
        yield {"kind": "many-types", "order": "ascending"}
        yield {"kind": "many-types", "order": "descending"}
        return
    for i, (src, desc) in enumerate(constant_types()):
        if i % shard["parts"] == shard["part"]:
            yield {"type_src": src, "desc": desc}


DEP = {"rns/Dep.1.0.dsdl": "@sealed\n"}


def read_one(type_src, inits):
    lines = ["%s K%d = %s" % (type_src, i, src) for i, (src, _k, _v) in enumerate(inits)]
    files = dict(DEP)
    files["rns/T.1.0.dsdl"] = "\n".join(lines) + "\n@sealed\n"
    return api.read_namespace_tree(files, "rns")


def check_case(case, R: engine.Acc):
    if case.get("kind") == "call-history":
        return H.check_history(case["label"], R, H.project_constants, 'constant-depends-on-earlier-calls', 'a constant holds the value of its initializer as evaluated over the definitions of THIS call')
    if case.get("kind") == "many-types":
        return check_many_types(case, R)
    if case.get("kind") == "api-constants":
        return check_api_constants(case, R)
    desc, type_src = case["desc"], case["type_src"]
    inits = initializers(desc)
    if "init_index" in case:
        inits = [inits[case["init_index"]]]
    all_inits = initializers(desc)
    good = [x for x in inits if expected(desc, x[1], x[2]) is not None]
    bad = [x for x in inits if expected(desc, x[1], x[2]) is None]

    def one(x):
        return {"type_src": type_src, "desc": desc, "init_index": [a[0] for a in all_inits].index(x[0]), "init": x[0]}

    def record(x):
        R.case([type_src, x[0]], nontrivial=near_boundary(desc, x[1], x[2]), sample=(x[1] == "q" and x[2] > 1000 and desc[0] == "int"))

    def verify_good(batch):
        o = read_one(type_src, batch)
        if o.error is not None:
            if len(batch) == 1:
                record(batch[0])
                R.outcome("compliant-rejected")
                R.violation("compliant-initializer-rejected:" + desc[0], "a compliant initializer is accepted", one(batch[0]), observed=o.error, expected=expected(desc, batch[0][1], batch[0][2]))
            else:
                for x in batch:
                    verify_good([x])
            return
        t = [d for d in o.types if d["full_name"] == "rns.T"][0]
        consts = [a for a in t["attributes"] if a["kind"] == "Constant"]
        for i, x in enumerate(batch):
            record(x)
            exp = expected(desc, x[1], x[2])
            got = [c for c in consts if c["name"] == "K%d" % i]
            if len(got) != 1 or got[0]["value"] != exp:
                R.outcome("value-differs")
                R.violation("stored-value-differs:" + desc[0], "the stored value is the exact rational / boolean / code point", one(x), observed=got[0]["value"] if got else None, expected=exp)
            else:
                R.outcome("accepted")
            norm = {"uint": lambda: ("truncated" if desc[2] == "t" else "saturated") + " uint%d" % desc[1], "int": lambda: "saturated int%d" % desc[1], "float": lambda: ("truncated" if desc[2] == "t" else "saturated") + " float%d" % desc[1], "bool": lambda: "bool"}[desc[0]]()
            if got and got[0]["type"]["str"] != norm:
                R.violation("constant-type-differs", "Constant.data_type is the declared type", one(x), observed=got[0]["type"]["str"], expected=norm)

    if good:
        verify_good(good)
    for x in bad:
        o = read_one(type_src, [x])
        record(x)
        if o.error is None:
            t = [d for d in o.types if d["full_name"] == "rns.T"][0]
            R.outcome("noncompliant-accepted")
            R.violation("noncompliant-initializer-accepted:%s:%s" % (desc[0], x[1]), "a non-compliant initializer is rejected", one(x), observed=[a.get("value") for a in t["attributes"]], expected="InvalidDefinitionError")
        elif not o.error["ide"]:
            R.outcome("rejected-with-foreign-exception")
            R.violation("rejection-not-InvalidDefinitionError:%s@%s" % (o.error["cls"], o.error.get("culprit")), "rejection is an InvalidDefinitionError", one(x), observed=o.error, expected="InvalidDefinitionError")
        else:
            R.outcome("rejected")


def finish(tier, M):
    if not M.hist.get("accepted") or not M.hist.get("rejected"):
        raise engine.Vacuous(repr(dict(M.hist)))
    return {"bounds": "all widths 1..64, all cast-mode spellings; initializer alphabet of %d..%d entries per type" % (25, 40)}
