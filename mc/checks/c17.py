"""
C17 - Errors and @print output are attributed to the right file and line.

Every (fault category, surrounding lines, end-of-line style, location) of the bounded space: the error's path must be
the file containing the fault and a reported line must be the fault's own 1-based line in that file; every @print is
delivered exactly once with the path and line of the directive.
"""
from __future__ import annotations

import itertools

from .. import api, engine
from .. import histories as H

ID = "C17"
LEVEL = "exploration"
DESIGN_REF = "DESIGN.md 4/C17"
RULE = (
    "case = (fault, prefix, suffix, EOL style, location): 19 fault statements (one per error category: syntax error, undefined "
    "identifier, failed assert, unknown directive, misplaced sealing, invalid type parameter, invalid capacity, unknown data type, "
    "and the lazily committed / finalize-time ones: out-of-range constant, invalid attribute name, duplicate attribute name, bad "
    "aggregation, missing serialization mode, expression nested beyond the interpreter stack, file that is not UTF-8) and @print; prefix of 0..2 and suffix of 0..1 lines (thorough, in the target: prefix 0..3 x suffix 0..1 and prefix 0..2 x suffix 2) over "
    "{empty, comment, field, field+comment, directive, padding field, constant, a directive that continues on the next physical line (line break inside a string literal), a comment containing FF / VT / FS / GS / RS / NEL / LS / PS, a directive on one physical line whose string literals denote line breaks through escapes, a directive whose string literals hold raw FF / VT / FS / GS / RS / NEL / LS / PS}; LF / CRLF / lone CR / mixed line endings; location in {target, dependency in a lookup root, dependency of "
    "a dependency, dependency in the same root read after its referrer, dependency in the same root read before its referrer} with "
    "the reference on line 2..4 of the referrer. Non-trivial iff the prefix is non-empty or the location is not the target; "
    "distinct by canonical hash of the tuple"
)
ASSUMPTIONS = [
    "a line number is checked only when one is reported (the property says 'a reported line number')",
    "'exactly once per evaluated directive': a directive in the dependency closure is delivered once per read_namespace call",
]

CTX = ["E", "C", "F", "F#", "A", "V", "K", "M", "X", "S", "XS"]


def ctx_line(sym, i, tag):
    if sym == "E":
        return ""
    if sym == "C":
        return "# comment %s%d" % (tag, i)
    if sym == "F":
        return "uint8 %s%d" % (tag, i)
    if sym == "F#":
        return "uint8 %s%d # doc" % (tag, i)
    if sym == "V":
        return "void3"
    if sym == "K":
        return "uint8 K%s%d = 1" % (tag.upper(), i)
    if sym == "X":
        # characters that str.splitlines() treats as line boundaries but DSDL does not (only LF / CRLF / CR end a line)
        return "# form\x0cfeed vt\x0b fs\x1c gs\x1d rs\x1e nel\x85 ls\u2028 ps\u2029 end"
    if sym == "XS":
        # a string literal (one physical line) holding characters that str.splitlines() treats as line boundaries but DSDL does not
        return "@assert 'ff\x0c vt\x0b fs\x1c gs\x1d rs\x1e' != \"nel\x85 ls\u2028 ps\u2029\""
    if sym == "S":
        # ONE physical line whose string literals DENOTE line breaks through escape sequences (and a continued comment look-alike)
        return "@assert 'a\\nb\\u000a\\r' != \"\\n\\n\"  # not continued \\"
    if sym == "M":
        # ONE statement that continues on the next physical line: the grammar lets a string literal contain a line break
        return "@assert 'two\nlines' != ''"
    return "@assert true"


EOLS = {"lf": ["\n"], "crlf": ["\r\n"], "cr": ["\r"], "mixed": ["\n", "\r\n", "\r"]}


def join_lines(lines, eol):
    e = EOLS[eol]
    out = []
    for i, l in enumerate(lines):
        x = e[i % len(e)]
        if x == "\r" and len(e) > 1 and i + 1 < len(lines) and lines[i + 1] == "" and e[(i + 1) % len(e)].startswith("\n"):
            x = "\n"  # a lone CR before an EMPTY line that ends in LF would read as one CR LF: one line break instead of two
        out.append(l + x)
    return "".join(out)


# (name, statement, finalize_time?)  finalize-time faults may legitimately carry no line
FAULTS = [
    ("syntax", "uint8 $", False),
    ("undefined-identifier", "@assert nope == 1", False),
    ("assert-false", "@assert 1 == 2", False),
    ("unknown-directive", "@frobnicate", False),
    ("misplaced-sealed", "@sealed", False),
    ("bad-width", "uint65 wide", False),
    ("bad-capacity", "uint8[0] arr", False),
    ("unknown-type", "Nope.1.0 missing", False),
    ("bad-expression", "@print 1 / 0", False),
    ("constant-out-of-range", "uint8 BAD = 256", False),
    ("reserved-name", "uint8 uint8", False),
    ("duplicate-name", "uint8 dup\nuint8 dup", True),
    ("bad-aggregation", "utf8 text", True),
    ("deep-nesting", "@assert " + "(" * 100 + "1" + ")" * 100 + " == 1", False),
    ("deep-unary", "@assert " + "-" * 700 + "1 == 1", False),
    ("not-utf8", "# caf\udcff", False),  # written as the byte FF: the file cannot be decoded at all
    ("assert-false-multiline", "@assert 'spans\ntwo lines' == ''", False),
    ("print", "@print 42", False),
    ("print-bare", "@print", False),
    ("print-bare-comment", "@print  # nothing to print", False),
]
FAULT_BY_NAME = {f[0]: f for f in FAULTS}
LOCATIONS = ["target", "lookup-dep", "lookup-dep-of-dep", "same-root-referrer-first", "same-root-referrer-last"]


def faulty_text(fault, prefix, suffix, eol):
    lines = ["@sealed" if fault != "missing-mode" else "# no mode"]
    for i, s in enumerate(prefix):
        lines += ctx_line(s, i, "p").split("\n")
    fault_line = len(lines) + 1
    stmt = FAULT_BY_NAME[fault][1] if fault != "missing-mode" else "uint8 x"
    lines += stmt.split("\n")
    last_fault_line = len(lines)
    for i, s in enumerate(suffix):
        lines += ctx_line(s, i, "s").split("\n")
    return join_lines(lines, eol), fault_line, last_fault_line


def referrer_text(ref_expr, ref_line, eol):
    lines = ["@sealed"]
    while len(lines) < ref_line - 1:
        lines.append("uint8 r%d" % len(lines))
    lines.insert(1, "@print 11")  # line 2: before the reference
    lines.append("%s dep" % ref_expr)
    lines += ["uint8 after", "@print 22", "# trailing"]  # a @print after the reference, too
    return join_lines(lines, eol)


def referrer_prints(path, ref_line):
    """[path, line, text] of the @print directives of a referrer built by referrer_text()"""
    return [[path, 2, "11"], [path, ref_line + 3, "22"]]


def build(case):
    """returns (files, root, lookups, faulty_path, fault_line, last_fault_line, prints of the referring definitions)"""
    eol = case["eol"]
    text, fl, lfl = faulty_text(case["fault"], case["prefix"], case["suffix"], eol)
    loc = case["location"]
    rl = case["ref_line"]
    if loc == "target":
        return {"rns/T.1.0.dsdl": text}, "rns", [], "rns/T.1.0.dsdl", fl, lfl, []
    if loc == "lookup-dep":
        return {"rns/T.1.0.dsdl": referrer_text("lk.Dep.1.0", rl, eol), "lk/Dep.1.0.dsdl": text}, "rns", ["lk"], "lk/Dep.1.0.dsdl", fl, lfl, referrer_prints("rns/T.1.0.dsdl", rl)
    if loc == "lookup-dep-of-dep":
        return {"rns/T.1.0.dsdl": referrer_text("lk.Mid.1.0", rl, eol), "lk/Mid.1.0.dsdl": referrer_text("lk.Dep.1.0", 3, eol), "lk/Dep.1.0.dsdl": text}, "rns", ["lk"], "lk/Dep.1.0.dsdl", fl, lfl, referrer_prints("rns/T.1.0.dsdl", rl) + referrer_prints("lk/Mid.1.0.dsdl", 3)
    if loc == "same-root-referrer-first":  # rns.A refers to rns.Z: A is read first, Z is first seen as a dependency
        return {"rns/A.1.0.dsdl": referrer_text("Z.1.0", rl, eol), "rns/Z.1.0.dsdl": text}, "rns", [], "rns/Z.1.0.dsdl", fl, lfl, referrer_prints("rns/A.1.0.dsdl", rl)
    if loc == "same-root-referrer-last":  # rns.Z refers to rns.A: A is read first as a target, later reached as a dependency
        return {"rns/Z.1.0.dsdl": referrer_text("A.1.0", rl, eol), "rns/A.1.0.dsdl": text}, "rns", [], "rns/A.1.0.dsdl", fl, lfl, referrer_prints("rns/Z.1.0.dsdl", rl)
    raise ValueError(loc)


def contexts(maxp, maxs):
    for np_ in range(maxp + 1):
        for p in itertools.product(CTX, repeat=np_):
            for ns in range(maxs + 1):
                for s in itertools.product(CTX, repeat=ns):
                    yield list(p), list(s)


def plan(tier):
    shards = []
    for f in [x[0] for x in FAULTS] + ["missing-mode"]:
        for loc in LOCATIONS:
            shards.append({"fault": f, "location": loc})
    shards += H.plan_shards(['faults'])
    shards += [{"kind": "rf-prints", "part": p, "parts": 4} for p in range(4)]
    shards += [{"kind": "scale", "part": p, "parts": 8} for p in range(8)]
    return shards


def cases(shard, tier):
    if shard.get("kind") == "call-histories":
        yield from H.cases_of(shard)
        return
    if shard.get("kind") == "scale":
        for i, c in enumerate(scale_cases(tier)):
            if i % shard["parts"] == shard["part"]:
                yield c
        return
    if shard.get("kind") == "rf-prints":
        for i, c in enumerate(rf_cases()):
            if i % shard["parts"] == shard["part"]:
                yield c
        return
    # thorough: in the target, prefixes of up to 3 with suffixes of up to 1 and prefixes of up to 2 with suffixes of up to 2 lines;
    # in dependencies prefixes of up to 2, suffixes of up to 1 with three reference lines; other line endings up to 2 context lines
    # (the full (3, 2) product over 5 locations x 4 line endings is 1.3e8 reads and was never completed)
    if tier == "quick":
        ctxs = list(contexts(2, 1))
    elif shard["location"] == "target":
        ctxs = list(contexts(3, 1)) + [(p, s) for p, s in contexts(2, 2) if len(s) == 2]
    else:
        ctxs = list(contexts(2, 1))
    for p, s in ctxs:
        for eol in ("lf", "crlf", "cr", "mixed"):
            if len(p) + len(s) > ({"lf": 9, "crlf": 2, "cr": 1, "mixed": 1} if tier == "quick" else {"lf": 9, "crlf": 2, "cr": 2, "mixed": 2})[eol]:
                continue
            ref_lines = [2] if shard["location"] == "target" else ([2, 4] if tier == "quick" else [2, 3, 4])
            for rl in ref_lines:
                yield {"fault": shard["fault"], "location": shard["location"], "prefix": p, "suffix": s, "eol": eol, "ref_line": rl}


RF_FILES = {
    "rns/Alpha.1.0.dsdl": "# leaf\nuint8 value\n\n@print 'alpha'\n@sealed\n",
    "rns/Bravo.1.0.dsdl": "# uses the leaf\n\nAlpha.1.0 leaf\n@print 'bravo'\n@sealed\n",
    "rns/Charlie.1.0.dsdl": "Bravo.1.0 nested\nAlpha.1.0[2] leaves\n@sealed\n\n\n@print 'charlie'\n",
    "rns/sub/Delta.1.0.dsdl": "@print 'delta'\nrns.Alpha.1.0 a\n@sealed\n",
}
RF_PRINTS = {"rns/Alpha.1.0.dsdl": [4, "'alpha'"], "rns/Bravo.1.0.dsdl": [4, "'bravo'"], "rns/Charlie.1.0.dsdl": [6, "'charlie'"], "rns/sub/Delta.1.0.dsdl": [1, "'delta'"]}
RF_CLOSURE = {"rns/Alpha.1.0.dsdl": [], "rns/Bravo.1.0.dsdl": ["rns/Alpha.1.0.dsdl"], "rns/Charlie.1.0.dsdl": ["rns/Bravo.1.0.dsdl", "rns/Alpha.1.0.dsdl"], "rns/sub/Delta.1.0.dsdl": ["rns/Alpha.1.0.dsdl"]}
RF_SPELLINGS = ["plain", "dotdot", "symlink", "str", "relative"]


HANDLER_KINDS = ["lambda", "falsy-callable-object", "truthy-callable-object", "bound-method", "partial", "falsy-bound-method-owner"]


def make_handler(kind, sink, base):
    import functools

    def record(p, l, t):
        sink.append([api.rel(base, p), l, t])

    if kind == "lambda":
        return lambda p, l, t: record(p, l, t)

    class Log(list):  # an (empty, hence falsy) list that is also callable
        def __call__(self, p, l, t):
            record(p, l, t)

        def method(self, p, l, t):
            record(p, l, t)

    class Obj:
        def __call__(self, p, l, t):
            record(p, l, t)

    if kind == "falsy-callable-object":
        return Log()
    if kind == "truthy-callable-object":
        return Obj()
    if kind == "bound-method":
        return Obj().__call__
    if kind == "falsy-bound-method-owner":
        return Log().method
    return functools.partial(lambda extra, p, l, t: record(p, l, t), None)


def rf_cases():
    names = sorted(RF_FILES)
    for k in (1, 2, 3):
        for combo in itertools.permutations(names, k):
            # the same file may be named several times, under several spellings
            yield {"kind": "rf-prints", "targets": [[n, "plain"] for n in combo]}
            for sp in RF_SPELLINGS[1:]:
                yield {"kind": "rf-prints", "targets": [[combo[0], "plain"]] + [[n, "plain"] for n in combo[1:]] + [[combo[0], sp]]}
                yield {"kind": "rf-prints", "targets": [[combo[0], sp]] + [[n, "plain"] for n in combo[1:]] + [[combo[0], "plain"]]}
            yield {"kind": "rf-prints", "targets": [[n, "plain"] for n in combo] + [[combo[0], "plain"]]}
            if k <= 2:
                # the handler is any callable: objects whose truth value is False (an empty list subclass with __call__), bound
                # methods, partial applications; through read_files and through read_namespace
                for h in HANDLER_KINDS[1:]:
                    yield {"kind": "rf-prints", "targets": [[n, "plain"] for n in combo], "handler": h}
    for h in HANDLER_KINDS:
        yield {"kind": "rf-prints", "targets": [[n, "plain"] for n in names], "handler": h, "api": "read_namespace"}


def check_rf_prints(case, R: engine.Acc):
    import os
    from pathlib import Path

    import pydsdl

    from .. import ws

    base = ws.fresh()
    old = os.getcwd()
    try:
        ws.write_tree(base, RF_FILES)
        (base / "links").mkdir()
        os.symlink(base / "rns", base / "links" / "rns")
        os.chdir(base)

        def spell(n, sp):
            if sp == "plain":
                return base / n
            if sp == "dotdot":
                return base / "rns" / ".." / n
            if sp == "symlink":
                return base / "links" / n
            if sp == "str":
                return str(base / n)
            return Path(n)

        prints = []
        R.case(case, nontrivial=True, sample=(len(case["targets"]) == 3 and case["targets"][-1][1] == "dotdot" and len(R.samples) < 2))
        try:
            with engine.deadline(20):
                handler = make_handler(case.get("handler", "lambda"), prints, base)
                if case.get("api") == "read_namespace":
                    pydsdl.read_namespace(base / "rns", [], handler)
                else:
                    pydsdl.read_files([spell(n, sp) for n, sp in case["targets"]], [base / "rns"], [], handler)
        except pydsdl.InvalidDefinitionError as ex:
            if any(sp == "symlink" for _n, sp in case["targets"]):
                R.outcome("rf-rejected")  # a target reached through a link outside the root may be refused; nothing was printed wrongly
                return
            R.violation("rf-prints-call-rejected", "harness: valid read_files call", case, observed=repr(ex)[:300])
            return
        closure = set()
        for n, _sp in case["targets"]:
            closure.add(n)
            closure.update(RF_CLOSURE[n])
        exp = sorted([n] + RF_PRINTS[n] for n in closure)
        if sorted(prints) != exp:
            dup = len(prints) != len({(p[0], p[1]) for p in prints})
            R.outcome("print-wrong")
            R.violation("print-delivered-%s:read_files" % ("more-than-once" if dup else "wrongly"), "@print is delivered exactly once per directive with its path and line, however often and under whatever spelling a file is named", case, observed=sorted(prints), expected=exp)
        else:
            R.outcome("rf-print-ok")
    finally:
        os.chdir(old)
        ws.remove(base)


# ---------------------------------------------------------------------------------------------------------------
# scale: files larger than the usual I/O block sizes whose line endings / multi-byte characters sit exactly on a block boundary,
# namespaces with many definitions, long dependency chains
SCALE_TAILS = {
    "print": (["uint8 a", "@print 7", "# c", "@print 8", "@sealed"], None, [[2, "7"], [4, "8"]]),
    "assert": (["uint8 a", "", "@print 7", "@assert 1 == 2", "@sealed"], 4, [[3, "7"]]),
    "bad-width": (["@sealed", "uint8 a", "uint65 wide"], 3, []),
}


def scale_cases(tier):
    from ..gen import scale as S

    bs = S.BOUNDARIES if tier != "quick" else S.BOUNDARIES[:5]
    for b in bs:
        for what, eol in (("crlf", "\r\n"), ("cr", "\r"), ("utf8-2", "\n"), ("utf8-3", "\r\n"), ("utf8-4", "\r"), ("utf8-2", "\r\n")):
            for tail in SCALE_TAILS:
                for loc in ("target", "dependency"):
                    yield {"kind": "scale-file", "boundary": b, "what": what, "eol": eol, "tail": tail, "location": loc}
    for n in (9, 17, 65, 66, 130):
        for legacy in (0, 3):
            yield {"kind": "scale-wide", "n": n, "legacy": legacy}
    for n in (8, 33, 60):
        yield {"kind": "scale-chain", "n": n}


def check_scale(case, R: engine.Acc):
    from ..gen import scale as S

    R.case(case, nontrivial=True, sample=(case["kind"] == "scale-file" and case["boundary"] == 8192 and case["what"] == "crlf" and case["tail"] == "assert" and len(R.samples) < 2))
    if case["kind"] == "scale-file":
        tail, fault_at, prints = SCALE_TAILS[case["tail"]]
        text, first = S.straddling_text(case["boundary"], case["what"], tail, case["eol"])
        if case["location"] == "target":
            files, root, lookups, fpath, ref_prints = {"rns/T.1.0.dsdl": text.encode("utf-8")}, "rns", [], "rns/T.1.0.dsdl", []
        else:
            files = {"rns/T.1.0.dsdl": referrer_text("lk.Dep.1.0", 3, "lf").encode(), "lk/Dep.1.0.dsdl": text.encode("utf-8")}
            root, lookups, fpath, ref_prints = "rns", ["lk"], "lk/Dep.1.0.dsdl", referrer_prints("rns/T.1.0.dsdl", 3)
        o = api.read_namespace_tree(files, root, lookups, timeout=60)
        exp_prints = sorted([[fpath, first + l - 1, t] for l, t in prints] + (ref_prints if fault_at is None else []))
        if fault_at is None:
            if o.error is not None:
                R.violation("large-definition-rejected:%s" % o.error["cls"], "harness: the definition is valid", case, observed=o.error)
            elif sorted(o.prints) != exp_prints:
                R.violation("print-line-wrong:large-file", "@print is delivered exactly once with the path and line of the directive, wherever the file's line endings and multi-byte characters fall", case, observed=sorted(o.prints), expected=exp_prints)
            else:
                R.outcome("scale-ok")
            return
        e = o.error
        if e is None or not e["ide"]:
            R.violation("large-file-fault-not-reported" if e is None else "foreign-exception:%s@%s" % (e["cls"], e.get("culprit")), "the fault is reported as InvalidDefinitionError", case, observed=e)
        elif e["path"] != fpath or (e["line"] is not None and e["line"] != first + fault_at - 1):
            R.violation("error-line-wrong:large-file", "a reported line is the 1-based line of the offending statement, wherever the file's line endings and multi-byte characters fall", case, observed={"path": e["path"], "line": e["line"]}, expected={"path": fpath, "line": first + fault_at - 1})
        else:
            mine = sorted(p for p in o.prints if p[0] == fpath)
            if mine != sorted([fpath, first + l - 1, t] for l, t in prints):
                R.violation("print-line-wrong:large-file", "@print before the fault is delivered once with its line", case, observed=mine, expected=prints)
            else:
                R.outcome("scale-ok")
        return
    if case["kind"] == "scale-wide":
        files, names, prints = S.wide_namespace(case["n"], case["legacy"])
    else:
        files, names, prints = S.chain_namespace(case["n"])
    root = next(iter(files)).split("/")[0]
    o = api.read_namespace_tree(files, root, timeout=120)
    exp = sorted([p] + v for p, v in prints.items())
    if o.error is not None:
        R.violation("large-namespace-rejected:%s" % o.error["cls"], "harness: the namespace is valid", case, observed=o.error)
    elif sorted(o.prints) != exp:
        R.violation("print-delivered-%d-times:large-namespace" % len(o.prints), "@print is delivered exactly once per directive, however many definitions are read between two uses of its definition", case, observed=sorted(o.prints), expected=exp)
    else:
        R.outcome("scale-ok")


def check_case(case, R: engine.Acc):
    if str(case.get("kind", "")).startswith("scale-"):
        return check_scale(case, R)
    if case.get("kind") == "rf-prints":
        return check_rf_prints(case, R)
    if case.get("kind") == "call-history":
        return H.check_history(case["label"], R, H.project_error_location, 'attribution-depends-on-earlier-calls', 'errors and @print output carry the path and line of the file read in THIS call')
    files, root, lookups, fpath, fl, lfl, ref_prints = build(case)
    fault = case["fault"]
    o = api.read_namespace_tree({k: v.encode("utf8", "surrogateescape") for k, v in files.items()}, root, lookups)
    R.case(case, nontrivial=bool(case["prefix"]) or case["location"] != "target", sample=(len(case["prefix"]) == 2 and case["location"] == "lookup-dep-of-dep" and fault == "constant-out-of-range"))
    where = "target" if case["location"] == "target" else "dependency"
    if fault.startswith("print"):
        if o.error is not None:
            R.violation("print-definition-rejected", "harness: a definition with @print is valid", case, observed=o.error)
            return
        own = [[fpath, fl, "42" if fault == "print" else ""]]
        exp = sorted(own + ref_prints)
        if sorted(o.prints) == exp:
            R.outcome("print-ok")
            return
        R.outcome("print-wrong")
        mine = [p for p in o.prints if p[2] == own[0][2] and p[2] != "11" and p[2] != "22"]
        others_ok = sorted(p for p in o.prints if p[2] in ("11", "22")) == sorted(ref_prints)
        if not others_ok:
            fp = "referrer-print-misattributed:" + where
        elif len(mine) != 1:
            fp = "print-delivered-%d-times:%s%s" % (len(mine), case["location"], ":bare" if fault != "print" else "")
        elif mine[0][0] != fpath:
            fp = "print-attributed-to-referrer-path:" + where
        else:
            fp = "print-line-wrong:" + where
        R.violation(fp, "@print is delivered exactly once with the path and line of the directive", case, observed=o.prints, expected=exp)
        return
    if o.error is None:
        R.violation("fault-not-reported:" + fault, "harness: the fault statement is invalid", case, observed="accepted")
        return
    e = o.error
    if not e["ide"] and fault != "not-utf8":  # a file that is not text at all is outside C13; its error still has to name it
        R.outcome("foreign-exception")
        R.violation("foreign-exception:%s@%s" % (e["cls"], e.get("culprit")), "errors are InvalidDefinitionError (see C13)", case, observed=e)
        return
    if e["path"] != fpath:
        R.outcome("path-wrong")
        R.violation("error-path-wrong:%s:%s" % (fault, where), "the error's path is the file containing the fault", case, observed={"path": e["path"], "line": e["line"], "cls": e["cls"]}, expected={"path": fpath, "line": fl})
        return
    if e["line"] is None:
        R.outcome("no-line")
        if not (FAULT_BY_NAME.get(fault, (0, 0, True))[2]):
            R.counters["line_not_reported:" + fault] += 1
        return
    ok_lines = {fl} if fault not in ("duplicate-name", "assert-false-multiline") else set(range(fl, lfl + 1))  # any line the statement(s) span
    if fault == "missing-mode":
        ok_lines = None  # no single offending statement; any line inside the file is not checkable
    if ok_lines is not None and e["line"] not in ok_lines:
        R.outcome("line-wrong")
        nlines = files[fpath].count("\n")
        kind = "line-of-referrer" if case["location"] != "target" and FAULT_BY_NAME.get(fault, (0, 0, False))[2] else "line-where-flushed"
        R.violation("error-line-wrong:%s:%s:%s" % (fault, where, kind), "a reported line is the 1-based line of the offending statement in that file", case, observed={"path": e["path"], "line": e["line"], "cls": e["cls"], "lines_in_file": nlines}, expected={"path": fpath, "line": sorted(ok_lines)})
        return
    R.outcome("attributed-ok")


def finish(tier, M):
    if not M.hist.get("attributed-ok") or not M.hist.get("print-ok") or not M.hist.get("rf-print-ok"):
        raise engine.Vacuous(repr(dict(M.hist)))
    return {"faults": [f[0] for f in FAULTS] + ["missing-mode"], "locations": LOCATIONS, "line_not_reported": {k: v for k, v in M.counters.items() if k.startswith("line_not_reported")}}
