"""
C13 - Bad input yields InvalidDefinitionError with a path, never a crash / InternalError.

Bounded-exhaustive families of definition texts (all token strings up to a length bound, all one-step token mutations
of valid seeds, an arithmetic / escape / nesting catalogue) and of file names, each offered to the real reader.
"""
from __future__ import annotations

import itertools
import re

from .. import api, engine
from .. import histories as H

ID = "C13"
LEVEL = "exploration"
DESIGN_REF = "DESIGN.md 4/C13"
RULE = (
    "case = definition text (or file-name set): (a) every string of <= 3 tokens (thorough: 4) over a 36-token alphabet, joined with "
    "and without blanks, followed by a @sealed line; (b) 12 valid seed definitions x every single token deletion / duplication / "
    "adjacent swap / replacement by every alphabet token (thorough: double mutations of 3 seeds); (c) arithmetic catalogue: every "
    "binary operator x operand pairs from 13 corner values, every \\\\uXXXX / \\\\UXXXXXXXX boundary escape in five contexts, nesting "
    "depths 1..100 of four bracket kinds and operator chains up to 400, 21 exotic operands (types, sets of types / of array types / sets / the offset set) under every attribute, unary and binary operator and in every sink; (d) 60 well- and ill-formed file names and pairs of files "
    "encoding the same (name, version); (e) magnitudes: 9 astronomically large values (10**5000, 2**64, 2**70, negative, non-integer ...) in each of 23 numeric "
    "sinks (capacities, extents, initializers, directive operands, layout intrinsics) x 20 follow-ups that make the reader report another error while "
    "the value is part of the model, plus minor-version pairs and dependencies carrying such values. Non-trivial iff the text is not a valid definition or is a mutation of a seed; distinct "
    "by canonical hash of the text / name set"
)
ASSUMPTIONS = [
    "texts are Unicode strings encodable as UTF-8 (the property quantifies over strings, not byte sequences)",
    "literals whose exact value needs more than ~10**6 digits (1e999999999, power towers) are resource exhaustion, not crashes, and are excluded",
]

TOKENS = [
    "uint8", "int8", "float16", "bool", "void3", "truncated", "utf8", "a", "B", "true", "@assert", "@print", "@extent", "@union", "---",
    "[", "]", "<=", "=", "(", ")", "{", "}", ",", ".", "+", "-", "*", "/", "**", "==", "!", "'", '"', "\\", "#",
]
EXTRA = ["\n", "\r", "\t", "\x00", "é", "1", "1.5", "0x", "|", "%", "&&", "K", "﻿", "_offset_", "byte", "@sealed", "@deprecated", "a.b.1.0", "Dep.1.0", "1.0"]

SEEDS = [
    "uint8 a\n@sealed\n",
    "# header\nuint8 VALUE = 123\ntruncated uint16[<=3] arr  # doc\nvoid5\nbool flag\n@extent 64 * 8\n",
    "@union\nuint8 a\nfloat16[2] b\n@sealed\n",
    "@deprecated\nint8 x\n@assert _offset_ == {8}\n@sealed\n",
    "uint8 a\n@sealed\n---\nutf8[<=10] text\nbyte[4] blob\n@extent 32 * 8\n",
    "Dep.1.0 d\nrns.Dep.1.0[<=2] ds\n@assert Dep.1.0.K == 7\n@sealed\n",
    "float32 PI = 3.14\nuint8 CH = 'a'\nbool T = true || !false\n@print {1, 2, 3}.max\n@sealed\n",
    "uint8 a\n@assert (1 + 2) * 3 == 9 && 2 ** 3 == 8\n@sealed\n",
    "@sealed",
    "\n\n# only comments\n\n@sealed\n",
    "int64 BIG = -9223372036854775808\nuint64 MAX = 0xFFFF_FFFF_FFFF_FFFF\n@print 'x' + \"y\"\n@sealed\n",
    "uint8[<4] a\nuint8[1 + 1] b\n@print Dep.1.0._extent_\n@print uint8._bit_length_\n@sealed\n",
]
DEP = {"rns/Dep.1.0.dsdl": "uint8 K = 7\nuint8 v\n@sealed\n", "rns/Svc.1.0.dsdl": "uint8 K = 1\nuint8 a\n@sealed\n---\nuint8 b\n@sealed\n"}

SEED_TOKEN = re.compile(r"[A-Za-z_@][A-Za-z0-9_]*|[0-9][0-9A-Fa-fxX_.]*|\*\*|\|\||&&|==|!=|<=|>=|---|\n|[ \t]+|.", re.S)


def seed_tokens(s):
    return SEED_TOKEN.findall(s)


CORNERS = ["0", "(-1)", "(1/2)", "(-8)", "(1/3)", "10**400", "1e308", "(2**0.5)", "1e-308", "(-1/3)", "(10**400 + 1/3)", "2", "{1, 2}"]
OPS = ["||", "&&", "==", "!=", "<=", ">=", "<", ">", "|", "^", "&", "+", "-", "*", "/", "%", "**"]
ESC_U = ["0000", "0009", "000a", "007f", "0080", "00ff", "d7ff", "d800", "dbff", "dc00", "dfff", "e000", "fffe", "ffff", "00g0", "12"]
ESC_BIGU = ["00000000", "0000ffff", "00010000", "0010ffff", "00110000", "7fffffff", "80000000", "ffffffff", "0000d800", "0000dfff", "001", "0000000g"]


def catalogue():
    out = []
    for op in OPS:
        for a in CORNERS:
            for b in CORNERS:
                if op == "**" and b in ("10**400", "1e308", "(10**400 + 1/3)"):
                    continue  # astronomically large powers: resource exhaustion, excluded (see ASSUMPTIONS)
                out.append("@print %s %s %s\n@sealed\n" % (a, op, b))
    for a in CORNERS:
        for u in ("-", "+", "!"):
            out.append("@print %s%s\n@sealed\n" % (u, a))
        out.append("@print %s.min\n@sealed\n" % a)
        out.append("uint8[%s] x\n@sealed\n" % a)
        out.append("uint8[<=%s] x\n@sealed\n" % a)
        out.append("@extent %s\n" % a)
        out.append("float64 X = %s\n@sealed\n" % a)
        out.append("uint64 X = %s\n@sealed\n" % a)
        out.append("@assert %s\n@sealed\n" % a)
    escs = ["\\u" + x for x in ESC_U] + ["\\U" + x for x in ESC_BIGU] + ["\\x41", "\\", "\\'", "\\q", "\\\\", "\\n\\r\\t"]
    for e in escs:
        for q in ("'", '"'):
            s = q + e + q
            out.append("@print %s\n@sealed\n" % s)
            out.append("uint8 X = %s\n@sealed\n" % s)
            out.append("@assert %s == 'a'\n@sealed\n" % s)
            out.append("@assert %s + 'a' != ''\n@sealed\n" % s)
            out.append("@print {%s, 'b'}\n@sealed\n" % s)
            out.append("uint8 x # %s\n@sealed\n" % s)
    for n in list(range(1, 33)) + [40, 48, 56, 64, 80, 100]:
        out.append("@print " + "(" * n + "1" + ")" * n + "\n@sealed\n")
        out.append("@print " + "{" * n + "1" + "}" * n + "\n@sealed\n")
        out.append("uint8[" + "(" * n + "1" + ")" * n + "] a\n@sealed\n")
        out.append("@print " + "!" * n + "true\n@sealed\n")
        out.append("@print " + "-(" * n + "1" + ")" * n + "\n@sealed\n")
        out.append("@print " + "2 ** (" * min(n, 5) + "1" + ")" * min(n, 5) + "\n@sealed\n")
    for n in (2, 10, 50, 100, 200, 400):
        out.append("@print " + " + ".join(["1"] * n) + "\n@sealed\n")
        out.append("@print " + ".".join(["{1}"] + ["count"] * n) + "\n@sealed\n")
        out.append("\n".join("uint8 f%d" % i for i in range(n)) + "\n@sealed\n")
        out.append("\n".join("uint8 f%d" % i for i in range(n)) + "\n@extent 8 * 1000\n")
        out.append("@union\n" + "\n".join("uint8 f%d" % i for i in range(max(n, 2))) + "\n@sealed\n")
        out.append("#" * n + "\n" * n + "@sealed\n")
        out.append("uint8 " + "a" * n + "\n@sealed\n")
        out.append("@print " + "1" * n + "\n@sealed\n")
        out.append("@print 0x" + "f" * n + "\n@sealed\n")
        out.append("@print 1." + "5" * n + "e" + "1" * min(n, 3) + "\n@sealed\n")
    # very long numerals (CPython refuses int <-> str conversions beyond 4300 digits) in every numeric position
    for n in (4300, 4301, 5000, 20000):
        big = "1" * n
        out += ["@print %s\n@sealed\n" % big, "@print 0x%s\n@sealed\n" % ("f" * n), "@print %s.5\n@sealed\n" % big, "@print 1.%s\n@sealed\n" % big, "@print 1e%s\n@sealed\n" % ("0" * n + "1"),
                "uint%s a\n@sealed\n" % big, "void%s\n@sealed\n" % big, "uint8[%s] a\n@sealed\n" % big, "uint8 X = %s\n@sealed\n" % big, "float64 X = %s\n@sealed\n" % big,
                "@print %s / 0\n@sealed\n" % big, "@print %s %% 0\n@sealed\n" % big, "@print 10 ** %d / 0\n@sealed\n" % n, "@assert %s == 1\n@sealed\n" % big, "@extent %s\n" % big,
                "Dep.%s.0 d\n@sealed\n" % big, "Dep.1.%s d\n@sealed\n" % big, "@print {%s}\n@sealed\n" % big, "@print {%s, 1}.max\n@sealed\n" % big, "@print -%s\n@sealed\n" % big, "@print %s | 1\n@sealed\n" % big]
    # set algebra: every binary operator over small sets (disjoint, overlapping, mixed element types) followed by every set attribute
    sets = ["{1}", "{1, 2}", "{3}", "{'a'}", "{'b'}", "{true}", "{1/2, 1}", "1", "'a'"]
    for a, b in itertools.product(sets, repeat=2):
        for op in ("|", "&", "^", "+", "-", "*", "/", "%", "**", "<", "<=", "==", "!=", ">", ">=", "||", "&&"):
            for attr in ("", ".min", ".max", ".count"):
                out.append("@print (%s %s %s)%s\n@sealed\n" % (a, op, b, attr))
    for use in ("Svc.1.0 s", "Svc.1.0[2] s", "Svc.1.0[<=2] s", "@print Svc.1.0._extent_", "@print Svc.1.0._bit_length_", "@print Svc.1.0", "@assert Svc.1.0.K == 1", "uint8 X = Svc.1.0", "Svc.1.0 X = 1", "@print Svc.1.0 == Svc.1.0", "@print {Svc.1.0}"):
        out.append(use + "\n@sealed\n")
        out.append("@union\nuint8 a\n" + use + "\n@sealed\n")
        # ... followed by statements that evaluate the layout while the offender is still pending
        for after in ("@print _offset_", "@assert _offset_ == {0}", "uint8 after\n@print _offset_.max", "void3\n@assert _offset_.count == 1", "@extent _offset_.max"):
            out.append(use + "\n" + after + ("\n@sealed\n" if "@extent" not in after else "\n"))
            out.append("uint8 before\n" + use + "\n" + after + ("\n@sealed\n" if "@extent" not in after else "\n"))
    # exotic operands: types, sets of types, sets of sets, the offset set - under every attribute, unary and binary operator
    exotic = ["uint8", "Dep.1.0", "Svc.1.0", "{uint8, uint16}", "{{1, 2}, {3}}", "{_offset_, {0, 8}}", "_offset_", "{true, false}", "{'a', 'b'}", "{1, 2}", "'a'", "true", "1", "{Dep.1.0}", "uint8[2]", "{1.5}",
              "{float32[<=2]}", "{uint8[4], uint8[8]}", "{Dep.1.0[2], Dep.1.0[<=2]}", "{void3, bool}", "{utf8[<=2], byte[2]}"]
    for a in exotic:
        for attr in (".min", ".max", ".count", "._bit_length_", "._extent_", ".foo", ".K", ".v", ".a", ".request", ".Request", "._offset_", ".1", ""):
            out.append("@print (%s)%s\n@sealed\n" % (a, attr))
            out.append("uint8 x\n@assert (%s)%s == 1\n@sealed\n" % (a, attr))
        for u in ("-", "+", "!"):
            out.append("@print %s(%s)\n@sealed\n" % (u, a))
        for b in exotic:
            for op in OPS:
                out.append("@print (%s) %s (%s)\n@sealed\n" % (a, op, b))
        out += ["uint8[%s] x\n@sealed\n" % a, "@extent %s\n" % a, "uint8 X = %s\n@sealed\n" % a, "bool X = %s\n@sealed\n" % a, "float32 X = %s\n@sealed\n" % a, "@assert %s\n@sealed\n" % a]
    out += ["", "\n", "\r\n", "\r", " ", "\t\n", "@sealed\r", "uint8 a\r@sealed\n", "﻿uint8 a\n@sealed\n", "uint8 a\x00\n@sealed\n", "uint8 а\n@sealed\n", "uint8 a @sealed\n", "uint8 a\x0c\n@sealed\n", "uint8 a\x0b@sealed\n", "uint8 a\x1c\n@sealed\n", "uint8 a\x85@sealed\n"]
    return out


# ---------------------------------------------------------------------------------------------------------------
# magnitudes: astronomically large (but cheaply written) numbers in every numeric sink of a definition, combined with every
# follow-up that makes the reader report an error while such a number is part of the model (the message must still be built)
HUGE = ["10**5000", "8 * 10**5000", "(10**5000 + 1)", "-(10**5000)", "(10**5000 / 3)", "2**64", "(2**64 - 8)", "2**70", "2**4300 * 8",
        # right at the interpreter's limit for converting integers to decimal text (4300 digits): the largest that converts, the smallest that does not, a few beyond
        "(10**4300 - 8)", "10**4300", "8 * 10**4306", "10**4314"]
SINKS = [
    "uint8[%s] x", "uint8[<=%s] x", "uint8[<%s] x", "bool[%s] x", "void8[%s] x", "utf8[%s] x", "utf8[<=%s] x", "byte[%s] x", "Dep.1.0[%s] x", "Dep.1.0[<=%s] x",
    "uint8[%s] x\n@print _offset_", "uint8[%s] x\n@assert _offset_ % 8 == {0}", "bool[%s] x\nuint8 y\n@assert _offset_.min > 0", "@print uint8[%s]._bit_length_", "@union\nuint8[%s] x\nuint8 y\n@assert _offset_.min > 0",
    "uint64 X = %s", "float64 X = %s", "bool X = %s", "uint8 x\n@assert _offset_ == {%s}", "uint8 x\n@assert _offset_.max < %s", "@assert %s > 0", "@print %s", "@print {%s, 1}.max",
]
FOLLOW = [
    "@sealed", "", "@extent 8", "@extent 64 * 8", "@extent %(v)s", "@extent 8 * %(v)s", "@extent %(v)s + 8", "@sealed\n@sealed", "@sealed\n@extent 8", "uint8 x\n@sealed", "uint8 enum\n@sealed", "uint8 y\n@sealed",
    "void3\nuint8 y\n@sealed", "@union\n@sealed", "uint8 Y = 256\n@sealed", "@assert false\n@sealed", "@deprecated\n@sealed", "---\nuint8 r\n@sealed", "@sealed\n---\nuint8 r\n@sealed", "@sealed\n---\n%(s)s\n@extent 8",
]
# the same sinks inside a dependency / next to another minor version of the same type (the cross-definition messages quote extents)
HUGE_PAIRS = [
    ("uint8[10**5000] x\n@sealed\n", "uint8[10**5000] x\nuint8 y\n@sealed\n"),
    ("uint8 x\n@extent 8 * 10**5000\n", "uint8 y\n@extent 16 * 10**5000\n"),
    ("uint8 x\n@extent 8 * 10**5000\n", "uint8 y\n@sealed\n"),
    ("uint8[2**70] x\n@extent 16 * 2**70\n", "uint8[2**70] x\n@extent 32 * 2**70\n"),
    ("uint8 x\n@sealed\n---\nuint8 y\n@extent 8 * 10**5000\n", "uint8 x\n@sealed\n---\nuint8 y\n@extent 16 * 10**5000\n"),
]
HUGE_DEPS = ["uint8[10**5000] x\n@sealed\n", "@deprecated\nuint8[10**5000] x\n@sealed\n", "uint8 x\n@extent 8 * 10**5000\n", "@deprecated\nuint8 x\n@extent 8 * 10**5000\n"]
HUGE_USES = ["lk.Big.1.0 b\n@sealed\n", "lk.Big.1.0[2] b\n@sealed\n", "lk.Big.1.0[<=2] b\n@extent 8\n", "lk.Big.1.0 b\n@extent 64\n", "@union\nlk.Big.1.0 b\n@sealed\n", "lk.Big.1.0 b\nlk.Big.1.0 b\n@sealed\n",
             "@print lk.Big.1.0._extent_\n@sealed\n", "@assert lk.Big.1.0._extent_ < 0\n@sealed\n", "uint8[lk.Big.1.0._extent_] z\n@extent 8\n", "lk.Big.1.0 b\n@extent lk.Big.1.0._extent_ - 8\n", "lk.Big.1.0 b\n"]


def magnitudes():
    for v in HUGE:
        for s in SINKS:
            st = s.replace("%s", v)
            for f in FOLLOW:
                yield {"kind": "text", "text": st + "\n" + (f % {"v": v, "s": st}) + "\n", "family": "magnitude", "nodump": True}
    for a, b in HUGE_PAIRS:
        yield {"kind": "files", "files": {"rns/Big.1.0.dsdl": a, "rns/Big.1.1.dsdl": b}, "root": "rns", "family": "magnitude"}
        yield {"kind": "files", "files": {"rns/Big.1.0.dsdl": b, "rns/Big.1.1.dsdl": a}, "root": "rns", "family": "magnitude"}
    for d in HUGE_DEPS:
        for u in HUGE_USES:
            yield {"kind": "files", "files": {"lk/Big.1.0.dsdl": d, "rns/T.1.0.dsdl": u}, "root": "rns", "lookups": ["lk"], "family": "magnitude"}


# ---------------------------------------------------------------------------------------------------------------
# scale: texts larger than the usual I/O block sizes (line endings and multi-byte characters exactly on block boundaries), thousands of
# distinct literals / names in one process, long dependency chains, wide namespaces
def scale_cases(tier):
    from ..gen import scale as S

    tails = {"valid": ["uint8 a", "@sealed"], "garbage": ["uint8 a", "$$$ ???", "@sealed"], "bad-rule": ["uint65 a", "@sealed"], "late-internal": ["@print '\\UFFFFFFFF'", "@sealed"]}
    bs = S.BOUNDARIES if tier != "quick" else S.BOUNDARIES[:5]
    for b in bs:
        for what, eol in (("crlf", "\r\n"), ("cr", "\r"), ("utf8-2", "\n"), ("utf8-3", "\r\n"), ("utf8-4", "\n"), ("utf8-4", "\r\n")):
            for tail in tails:
                text, _first = S.straddling_text(b, what, tails[tail], eol)
                yield {"kind": "text", "text": text, "family": "scale-file", "label": [b, what, tail]}
    for n in (300, 1100, 2100):
        yield {"kind": "text", "text": "".join("uint32 K%d = %d\n" % (i, 100000 + i) for i in range(n)) + "@sealed\n", "family": "scale-literals", "label": ["constants", n]}
        yield {"kind": "text", "text": "".join("@assert %d.%d > 0x%x\n" % (50000 + i, i, i) for i in range(n)) + "@sealed\n", "family": "scale-literals", "label": ["mixed", n]}
        yield {"kind": "text", "text": "".join("uint8 name_%d_%s\n" % (i, "x" * (i % 40)) for i in range(n // 10)) + "@sealed\n", "family": "scale-literals", "label": ["names", n]}
    for n in (20, 60, 75, 120):
        files, _names, _p = S.chain_namespace(n)
        yield {"kind": "files", "files": files, "root": "cns", "family": "scale-chain", "label": n}
    for n in (66, 130):
        files, _names, _p = S.wide_namespace(n, legacy_every=4)
        yield {"kind": "files", "files": files, "root": "wns", "family": "scale-wide", "label": n}


FILENAMES = [
    "A.1.0.dsdl", "A.1.0.uavcan", "7000.A.1.0.dsdl", "A.0.1.dsdl", "A.255.255.dsdl", "A.256.0.dsdl", "A.0.0.dsdl", "A.1.dsdl", "A.dsdl", ".dsdl", "1.0.dsdl",
    "A.1.0.0.0.dsdl", "x.7000.A.1.0.dsdl", "A.-1.0.dsdl", "A.1.-0.dsdl", "A.+1.0.dsdl", "A.1_0.0.dsdl", "A. 1.0.dsdl", "A.١.0.dsdl", "A.1e1.0.dsdl", "A.0x1.0.dsdl",
    "-7000.A.1.0.dsdl", "7_000.A.1.0.dsdl", "+7000.A.1.0.dsdl", "8192.A.1.0.dsdl", "99999999999999999999.A.1.0.dsdl", "A.99999999999999999999.0.dsdl", " .1.0.dsdl", "A B.1.0.dsdl",
    "a-b.1.0.dsdl", "9A.1.0.dsdl", "uint8.1.0.dsdl", "Kelvin.1.0.dsdl", "é.1.0.dsdl", "A.1.0.DSDL", "A.1.0.dsdl.bak", "A.1.0..dsdl", "..1.0.dsdl", "A..0.dsdl", "A.1..dsdl",
    "A.1.0.dsdl ", "_.1.0.dsdl", "__.1.0.dsdl", "_a_.1.0.dsdl", "con.1.0.dsdl", "COM1.1.0.dsdl", "LongName" * 30 + ".1.0.dsdl", "A.1.0.dsdl\n", "A\t.1.0.dsdl",
    "A.01.0.dsdl", "A.1.00.dsdl", "007000.A.1.0.dsdl", "A.1.0.uavcan.dsdl", "A.1.0.dsdl.uavcan", ".A.1.0.dsdl", "A.1.0.", "6143.A.1.0.dsdl", "511.A.1.0.dsdl",
]
NAME_PAIRS = [
    ("A.1.0.dsdl", "7000.A.1.0.dsdl"), ("A.1.0.dsdl", "A.1.0.uavcan"), ("7000.A.1.0.dsdl", "7001.A.1.0.dsdl"), ("A.1.0.dsdl", "a.1.0.dsdl"), ("A.1.0.dsdl", "A.01.0.dsdl"),
    ("A.1.0.dsdl", "A.1.00.dsdl"), ("A.1.0.dsdl", "sub/A.1.0.dsdl"), ("sub/A.1.0.dsdl", "SUB/A.1.0.dsdl"), ("A.1.0.dsdl", "A.1.1.dsdl"), ("7000.A.1.0.dsdl", "7000.B.1.0.dsdl"),
    ("A.1.0.uavcan", "7000.A.1.0.uavcan"), ("sub/A.1.0.dsdl", "sub.A.1.0.dsdl"),
]
DIR_LIKE = [["A.1.0.dsdl/keep.txt"], ["A.1.0.uavcan/keep.txt"], ["sub/7000.A.1.0.dsdl/keep.txt"], ["A.1.0.dsdl/Inner.1.0.dsdl"], ["x.dsdl/keep.txt"], ["A.1.0.dsdl/keep.txt", "A.1.0.uavcan/keep.txt"]]
DIRNAMES = ["sub", "uint8", "a-b", "9x", "K", "é", "sub.x", " ", "_x_", "con", "A" * 200]


def plan(tier):
    n = 3 if tier == "quick" else 4
    shards = []
    parts = 96 if tier == "quick" else 768
    shards += [{"family": "tokens", "n": n, "part": p, "parts": parts} for p in range(parts)]
    shards += [{"family": "mutations", "part": p, "parts": 32} for p in range(32)]
    shards += [{"family": "catalogue", "part": p, "parts": 32} for p in range(32)]
    shards += [{"family": "in-dependency", "part": p, "parts": 32} for p in range(32)]
    shards += [{"family": "names", "part": p, "parts": 8} for p in range(8)]
    shards += [{"family": "magnitudes", "part": p, "parts": 16} for p in range(16)]
    shards += [{"family": "scale", "part": p, "parts": 8} for p in range(8)]
    if tier != "quick":
        shards += [{"family": "mutations2", "part": p, "parts": 128} for p in range(128)]
    shards += H.plan_shards(['faults'])
    return shards


def token_strings(n):
    for k in range(0, n + 1):
        for combo in itertools.product(TOKENS, repeat=k):
            yield "".join(combo)
            if 2 <= k <= 3:
                yield " ".join(combo)  # strings of 4 tokens (thorough tier): without blanks only


def mutations(seed):
    toks = seed_tokens(seed)
    for i in range(len(toks)):
        yield "".join(toks[:i] + toks[i + 1 :])
        yield "".join(toks[: i + 1] + toks[i:])
        if i + 1 < len(toks):
            yield "".join(toks[:i] + [toks[i + 1], toks[i]] + toks[i + 2 :])
        for t in TOKENS + EXTRA:
            yield "".join(toks[:i] + [t] + toks[i + 1 :])
            if i % 3 == 0:
                yield "".join(toks[:i] + [t] + toks[i:])  # insertion


def cases(shard, tier):
    if shard.get("kind") == "call-histories":
        yield from H.cases_of(shard)
        return
    fam = shard["family"]
    if fam == "tokens":
        for i, s in enumerate(token_strings(shard["n"])):
            if i % shard["parts"] == shard["part"]:
                yield {"kind": "text", "text": s + "\n@sealed\n", "family": "tokens"}
    elif fam == "mutations":
        i = 0
        for seed in SEEDS:
            for m in mutations(seed):
                if i % shard["parts"] == shard["part"]:
                    yield {"kind": "text", "text": m, "family": "mutation"}
                i += 1
    elif fam == "mutations2":
        i = 0
        for seed in (SEEDS[1], SEEDS[5], SEEDS[6]):
            toks = seed_tokens(seed)
            for a in range(len(toks)):
                for b in range(a + 1, min(len(toks), a + 8)):
                    for ta, tb in itertools.product(TOKENS[:24], repeat=2):
                        if i % shard["parts"] == shard["part"]:
                            yield {"kind": "text", "text": "".join(toks[:a] + [ta] + toks[a + 1 : b] + [tb] + toks[b + 1 :]), "family": "mutation2"}
                        i += 1
    elif fam == "catalogue":
        for i, s in enumerate(catalogue()):
            if i % shard["parts"] == shard["part"]:
                yield {"kind": "text", "text": s, "family": "catalogue"}
    elif fam == "in-dependency":
        # the same texts offered as a DEPENDENCY (first reached through a referring definition): the path must still name
        # the offending file, also for faults that only surface when the dependency is finalized
        i = 0
        step = 3 if tier == "quick" else 1
        for seed in SEEDS:
            for j, m in enumerate(mutations(seed)):
                if j % step == 0:
                    if i % shard["parts"] == shard["part"]:
                        yield {"kind": "text", "text": m, "family": "mutation", "where": "dependency"}
                    i += 1
        for j, s in enumerate(catalogue()):
            if j % step == 0 and len(s) < 2000:
                if i % shard["parts"] == shard["part"]:
                    yield {"kind": "text", "text": s, "family": "catalogue", "where": "dependency"}
                i += 1
    elif fam == "scale":
        for i, c in enumerate(scale_cases(tier)):
            if i % shard["parts"] == shard["part"]:
                yield c
    elif fam == "magnitudes":
        for i, c in enumerate(magnitudes()):
            if i % shard["parts"] == shard["part"]:
                yield c
    elif fam == "names":
        i = 0
        for n in FILENAMES:
            for d in ("", "sub/"):
                if i % shard["parts"] == shard["part"]:
                    yield {"kind": "names", "files": [d + n]}
                i += 1
        for a, b in NAME_PAIRS:
            if i % shard["parts"] == shard["part"]:
                yield {"kind": "names", "files": [a, b]}
                # the same twins holding services / unions / delimited / deprecated definitions, and mixed kinds
                for body in ("service", "union", "delimited", "deprecated", "service+message", "message+service"):
                    yield {"kind": "names", "files": [a, b], "body": body}
            i += 1
        for d in DIRNAMES:
            if i % shard["parts"] == shard["part"]:
                yield {"kind": "names", "files": [d + "/A.1.0.dsdl"]}
            i += 1
        # DIRECTORIES whose names have the shape of a definition file name (empty but for a stray file / holding a definition), next
        # to a proper definition; also designated as a read_files target
        for dl in DIR_LIKE:
            if i % shard["parts"] == shard["part"]:
                yield {"kind": "names", "files": dl + ["Good.1.0.dsdl"], "target": "rns/" + dl[0].split("/keep.txt")[0].rsplit("/Inner.1.0.dsdl", 1)[0]}
            i += 1


def verdict(o: api.Obs, R, case, offending: str | None):
    if o.error is None:
        R.outcome("accepted")
        return
    e = o.error
    if e["cls"] == "TIMEOUT":
        R.outcome("timeout")
        R.violation("does-not-terminate", "reading terminates", case, observed=e)
        return
    if e["cls"] == "OSError" or e["cls"] in ("FileNotFoundError", "NotADirectoryError", "PermissionError"):
        R.outcome("oserror")  # the API documents OSError for inaccessible paths; not a definition error
        return
    if not e["ide"]:
        R.outcome("foreign-exception")
        R.violation("escaped:%s@%s" % (e["cls"], e.get("culprit")), "only InvalidDefinitionError (never InternalError / non-pydsdl exceptions) escapes", case, observed=e, expected="a model or InvalidDefinitionError")
        return
    if not e["path"]:
        R.outcome("ide-without-path")
        R.violation("error-without-path:%s" % e["cls"], "the error's path names the offending file", case, observed=e, expected=offending)
        return
    if offending is not None and e["path"] != offending:
        R.outcome("ide-wrong-path")
        R.violation("error-path-wrong:%s" % e["cls"], "the error's path names the offending file", case, observed=e, expected=offending)
        return
    R.outcome("invalid-definition")


def check_case(case, R: engine.Acc):
    if case.get("kind") == "call-history":
        return H.check_history(case["label"], R, H.project_error_location, 'error-depends-on-earlier-calls', 'the error is an InvalidDefinitionError whose path names the offending file of THIS call')
    if case["kind"] == "text" and case.get("where") == "dependency":
        files = {"lk/" + k.split("/", 1)[1]: v for k, v in DEP.items()}
        files["lk/Bad.1.0.dsdl"] = case["text"].encode("utf-8")
        files["rns/A.1.0.dsdl"] = "uint8 x\nlk.Bad.1.0 bad\nuint8 y\n@sealed\n"
        o = api.read_namespace_tree(files, "rns", ["lk"], timeout=30)
        R.case(["dep", case["text"]], nontrivial=True, sample=False)
        if o.error is not None and o.error.get("ide") and o.error.get("path") == "rns/A.1.0.dsdl":
            # the text may be a valid definition that merely cannot be used as a field of A (a service, a deprecated type):
            # then A is the offending file. Decide by reading the dependency on its own.
            alone = api.read_namespace_tree({k: v for k, v in files.items() if k.startswith("lk/")}, "lk", timeout=30)
            if alone.error is None:
                R.outcome("invalid-use-of-valid-dependency")
                return
        verdict(o, R, case, "lk/Bad.1.0.dsdl")
    elif case["kind"] == "files":
        o = api.read_namespace_tree(case["files"], case["root"], case.get("lookups"), timeout=30, nodump=True)
        R.case(case["files"], nontrivial=True, sample=False)
        verdict(o, R, case, None)
    elif case["kind"] == "text":
        files = dict(DEP)
        files["rns/T.1.0.dsdl"] = case["text"].encode("utf-8")
        o = api.read_namespace_tree(files, "rns", timeout=30, nodump=bool(case.get("nodump")))
        R.case(case["text"], nontrivial=(o.error is not None or case["family"] != "tokens"), sample=(case["family"] == "mutation" and len(case["text"]) % 41 == 0))
        verdict(o, R, case, "rns/T.1.0.dsdl")
    else:
        files = {}
        for i, f in enumerate(case["files"]):
            # distinct contents and lengths: same-name files are distinct definitions
            fields = "".join("uint8 f%d\n" % j for j in range(i + 1))
            body = case.get("body", "message").split("+")
            body = body[i % len(body)]
            files["rns/" + f] = {"message": fields + "@sealed\n", "service": fields + "@sealed\n---\n" + fields + "@sealed\n", "union": "@union\nuint16 alt\n" + fields + "@sealed\n",
                                 "delimited": fields + "@extent 64 * 8\n", "deprecated": "@deprecated\n" + fields + "@sealed\n"}[body]
        try:
            o = api.read_namespace_tree(files, "rns", timeout=30, allow_unregulated_fixed_port_id=True)
        except (OSError, ValueError) as ex:  # the scratch file system refused the name: not a case
            R.counters["unwritable_names"] += 1
            return
        R.case(case["files"] + [case.get("body", "message")], nontrivial=True, sample=len(case["files"]) == 2 and "body" not in case)
        verdict(o, R, case, None)
        o2 = api.read_files_tree(files, [case["target"]] if "target" in case else ["rns/" + f for f in case["files"]][:1], ["rns"], timeout=30, allow_unregulated_fixed_port_id=True)
        R.case(["read_files"] + case["files"] + [case.get("body", "message")], nontrivial=True, sample=False)
        verdict(o2, R, {**case, "api": "read_files"}, None)


def finish(tier, M):
    need = ["accepted", "invalid-definition"]
    miss = [n for n in need if not M.hist.get(n)]
    if miss:
        raise engine.Vacuous("outcome classes not seen: %s" % miss)
    return {"token_alphabet": TOKENS, "mutation_extra_tokens": EXTRA, "seeds": len(SEEDS)}
