"""
C09 - Versioned references resolve to exactly the named definition or fail cleanly.

Every dependency graph over <= 3 (thorough: 4) definitions - every edge set including self loops and cycles - under
several name/version assignments, read through read_namespace and through read_files for every ordered target subset;
plus families for missing versions, case-differing names and duplicate lookup definitions; plus a history search over
the order in which cached definition objects are read.
"""
from __future__ import annotations

import itertools

import pydsdl

from .. import api, dump, engine, ws
from .. import histories as H
from ..ref import ns as N

ID = "C09"
LEVEL = "model_checking"
DESIGN_REF = "DESIGN.md 4/C09"
RULE = (
    "case = (name assignment, edge set, spelling, operation): nodes are (full name, version) pairs from 5 assignments (distinct names "
    "in one namespace; three versions of one name; cross-root; a root namespace split over two directories with a same-identity twin; thorough: nested namespace with versions, twins only in lookups, 4 nodes (every 32nd of the 65536 edge sets on four nodes)); every edge additionally doubled with mixed spellings (correct / relative / wrong letter case, in both orders) for edge sets of <=2 (thorough 3) edges; letter-case twin names with a definition sorting between them, referenced from a fourth definition; "
    "EVERY edge set over the nodes (2**(n*n), self loops and cycles included) x references spelled absolute / relative where "
    "admissible x {read_namespace; read_files for every non-empty target subset in every list order}; plus bad-reference families "
    "(missing version, missing name, wrong letter case, duplicate definition in a second lookup root, reference to the other "
    "version). History part: the definition objects of every acyclic configuration are read in every order through the internal "
    "read() (states = sets of already cached definitions, transitions = reads). Non-trivial iff the graph has at least one edge; "
    "distinct by canonical hash of the tuple"
)
ASSUMPTIONS = [
    "ref.ns.closure: a reference resolves iff exactly one visible definition has exactly that full name and version; a definition being read is invisible to its own dependency chain, hence self / cyclic references are undefined",
    "several minor versions of one name use major version 0, which is exempt from the compatibility rules of C11 (checked separately)",
    "the history part drives DSDLDefinition.read() directly (internal API), flagged as such",
]

ASSIGNMENTS = {
    "names": [("r", "r.A", (1, 0)), ("r", "r.B", (1, 0)), ("r", "r.s.C", (1, 0))],
    "versions": [("r", "r.A", (0, 1)), ("r", "r.A", (0, 2)), ("r", "r.A", (1, 0))],
    # version numbers that read alike once their digits are run together
    "digit-ambiguous-versions": [("r", "r.A", (0, 110)), ("r", "r.A", (0, 11)), ("r", "r.B", (11, 0)), ("r", "r.B", (1, 10))],
    "cross-root": [("r", "r.B", (1, 0)), ("r", "r.A", (1, 0)), ("q", "q.D", (1, 0))],
    "nested-versions": [("r", "r.s.C", (1, 0)), ("r", "r.s.C", (2, 0)), ("r", "r.s.E", (1, 0))],
    "four": [("r", "r.A", (0, 1)), ("r", "r.A", (0, 2)), ("r", "r.s.C", (1, 0)), ("q", "q.D", (1, 0))],
    # the root namespace r is split over two directories; r.A.1.0 exists in both (a "twin")
    "twins": [("r", "r.A", (1, 0)), ("q2/r", "r.A", (1, 0)), ("r", "r.B", (1, 0))],
    "twins-lookup": [("r", "r.B", (1, 0)), ("q2/r", "r.A", (1, 0)), ("q3/r", "r.A", (1, 0))],
    # names that differ only by letter case, with another definition sorting between them
    # (only references from the fourth, unrelated definition are explored: whether a letter-case twin that is itself being
    # read is visible to its own dependency chain is not something the property settles)
    "case-twins": [("r", "r.AB", (1, 0)), ("r", "r.AC", (1, 0)), ("r", "r.Ab", (1, 0)), ("r", "r.Z", (1, 0))],
    "case-twins-versions": [("r", "r.AB", (1, 0)), ("r", "r.AB", (0, 1)), ("r", "r.Ab", (1, 0)), ("r", "r.Z", (1, 0))],
}
ASSIGNMENTS.update({
    # namespaces that differ only by letter case, each holding a type of the same short name and version
    "case-twin-namespaces": [("r", "r.s.AB", (1, 0)), ("r", "r.S.AB", (1, 0)), ("r", "r.s.Z", (1, 0))],
    # a definition whose short name equals / is a prefix of one of its own namespace components
    "name-in-namespace": [("r", "r.box.box", (1, 0)), ("r", "r.box.Item", (1, 0)), ("r", "r.Item", (1, 0))],
    "name-prefix-of-namespace": [("r", "r.boxes.box", (1, 0)), ("r", "r.boxes.Item", (1, 0)), ("r", "r.Item", (1, 0))],
    "deep-name-in-namespace": [("r", "r.crate.deep.crate", (1, 0)), ("r", "r.crate.deep.Item", (1, 0)), ("r", "r.crate.Item", (1, 0)), ("r", "r.Item", (1, 0))],
})
FROM_NODE = {"case-twins": 3, "case-twins-versions": 3, "case-twin-namespaces": 2, "name-in-namespace": 0, "name-prefix-of-namespace": 0, "deep-name-in-namespace": 0}
LOOKUPS = ["q", "q2/r", "q3/r"]


def make_config(assignment, edges, spelling, extra_defs=()):
    nodes = ASSIGNMENTS[assignment]
    defs = []
    for i, (d, name, ver) in enumerate(nodes):
        refs = []
        for e in edges:
            a, b = e[0], e[1]
            esp = e[2] if len(e) > 2 else spelling
            if a == i:
                tn = nodes[b]
                same_ns = tn[1].rsplit(".", 1)[0] == name.rsplit(".", 1)[0]
                if esp == "miscase":  # the last name component with swapped letter case: matches no definition exactly
                    head, last = tn[1].rsplit(".", 1)
                    refs.append([head + "." + last.swapcase(), list(tn[2]), "abs"])
                else:
                    sp = "rel" if (esp == "rel" and same_ns) else "abs"
                    refs.append([tn[1], list(tn[2]), sp])
        dd = {"dir": d, "name": name, "ver": list(ver), "refs": refs, "port": None, "legacy": False, "text": None}
        defs.append(dd)
    for x in extra_defs:
        defs.append(x)
    for i, dd in enumerate(defs):
        if dd.get("text") is None:
            lines = ["# %s" % N.ident(dd)]
            for j, r in enumerate(dd["refs"]):
                lines.append("%s r%d" % (N.ref_expr(dd, r) if not r[2].startswith("raw:") else r[2][4:], j))
            lines += ["uint8 ID = %d" % (i + 1), "@sealed"]
            dd["text"] = "\n".join(lines) + "\n"
    return {"root": "r", "lookups": list(LOOKUPS), "defs": defs}


def all_edge_sets(n):
    pairs = [(a, b) for a in range(n) for b in range(n)]
    for mask in range(1 << len(pairs)):
        yield [pairs[i] for i in range(len(pairs)) if mask >> i & 1]


def plan(tier):
    shards = []
    for a in FROM_NODE:
        shards.append({"kind": "graphs-from-last", "assignment": a, "n": len(ASSIGNMENTS[a])})
    shards.append({"kind": "graphs-pairs", "assignment": "digit-ambiguous-versions", "n": 4})
    full = ("names", "versions", "cross-root", "twins") if tier == "quick" else ("names", "versions", "cross-root", "nested-versions", "twins", "twins-lookup")
    for a in full:
        for p in range(16):
            shards.append({"kind": "graphs", "assignment": a, "n": 3, "part": p, "parts": 16})
        shards.append({"kind": "graphs", "assignment": a, "n": 2, "part": 0, "parts": 1})
    if tier != "quick":
        # every fourth of 256 slices of the four-node family (a stated slice: the whole family took more than an hour on 16 cores)
        for p in range(0, 256, 4):
            shards.append({"kind": "graphs", "assignment": "four", "n": 4, "part": p, "parts": 256})
    shards.append({"kind": "badrefs"})
    shards.append({"kind": "file-twins"})
    shards.append({"kind": "scale"})
    shards += H.plan_shards(['nested-revisions', 'shared-arguments', 'wide-revisions'])
    return shards


def cases(shard, tier):
    if shard.get("kind") == "call-histories":
        yield from H.cases_of(shard)
        return
    if shard["kind"] == "scale":
        for n in (5, 16, 17, 30, 60):
            for op in ("rn", "rf-head", "rf-tail", "rf-middle"):
                yield {"kind": "scale-chain", "n": n, "op": op}
        for n in (3, 8, 9, 12):
            for ref in ("missing-type", "missing-version", "missing-namespace"):
                yield {"kind": "scale-many-roots", "n": n, "ref": ref}
        for k in (1, 4, 5, 6, 9):
            for where in ("two-lookup-roots", "lookup-root-extension"):
                yield {"kind": "scale-kth-reference", "k": k, "where": where}
        return
    if shard["kind"] == "file-twins":
        for twin in ("legacy-extension", "port-prefix", "both"):
            for where in ("target-root", "lookup-root"):
                for referenced in (True, False):
                    for op in ("rn", "rf"):
                        for first in ("dsdl-is-A", "twin-is-A"):
                            yield {"kind": "file-twins", "twin": twin, "where": where, "referenced": referenced, "op": op, "first": first}
        return
    if shard["kind"] == "graphs-pairs":
        # every set of <= 2 edges over the nodes (no self loops)
        n = shard["n"]
        pairs_ = [(a, b) for a in range(n) for b in range(n) if a != b]
        for k in (1, 2):
            for edges in itertools.combinations(pairs_, k):
                yield {"kind": "graph", "assignment": shard["assignment"], "n": n, "edges": [list(e) for e in edges], "spelling": "abs"}
        return
    if shard["kind"] == "graphs-from-last":
        n = shard["n"]
        src = FROM_NODE[shard["assignment"]]
        outs = [(src, b) for b in range(n) if b != src]
        for mask in range(1, 1 << len(outs)):
            edges = [outs[i] for i in range(len(outs)) if mask >> i & 1]
            for sps in itertools.product(("abs", "rel", "miscase"), repeat=len(edges)):
                yield {"kind": "graph", "assignment": shard["assignment"], "n": n, "edges": [[a, b, sp] for (a, b), sp in zip(edges, sps)], "spelling": "abs"}
        return
    if shard["kind"] == "graphs":
        n = shard["n"]
        for i, edges in enumerate(all_edge_sets(n)):
            if i % shard["parts"] != shard["part"]:
                continue
            if n == 4 and i % 8 != shard["part"] % 8:
                continue  # thorough: every 8th of the 65536 edge sets on four nodes, of which plan() schedules every fourth slice: every 32nd in all (stated)
            for sp in ("abs", "rel"):
                if sp == "rel" and not any(ASSIGNMENTS[shard["assignment"]][a][1].rsplit(".", 1)[0] == ASSIGNMENTS[shard["assignment"]][b][1].rsplit(".", 1)[0] for a, b in edges):
                    continue
                yield {"kind": "graph", "assignment": shard["assignment"], "n": n, "edges": [list(e) for e in edges], "spelling": sp}
            # the same dependency referenced twice with different spellings (incl. a letter-case mismatch, first or second),
            # and single mis-cased references: for every edge of every edge set with at most 3 edges
            if 1 <= len(edges) <= (2 if tier == "quick" else 3) and n <= 3 and (tier != "quick" or shard["assignment"] in ("names", "twins", "cross-root")):
                for k in range(len(edges)):
                    for first, second in (("abs", "miscase"), ("miscase", "abs"), ("abs", "abs"), ("rel", "abs"), ("miscase", None)):
                        es = [list(e) + ["abs"] for e in edges]
                        es[k][2] = first
                        if second is not None:
                            es.insert(k + 1, [edges[k][0], edges[k][1], second])
                        yield {"kind": "graph", "assignment": shard["assignment"], "n": n, "edges": es, "spelling": "abs", "light": True}
    else:
        yield {"kind": "badrefs"}


def run_public(base, cfg, op, targets=None):
    try:
        if op == "rn":
            res = pydsdl.read_namespace(base / cfg["root"], [base / x for x in cfg["lookups"]], allow_unregulated_fixed_port_id=True)
            return {"ok": res}
        d, t = pydsdl.read_files([base / N.file_of(x) for x in targets], [base / x for x in sorted({y["dir"] for y in targets})], [base / x for x in [cfg["root"]] + cfg["lookups"]])
        return {"ok": d + t, "direct": d, "transitive": t}
    except pydsdl.InvalidDefinitionError as ex:
        return {"ide": type(ex).__name__}
    except engine.CaseTimeout:
        return {"other": "TIMEOUT"}
    except Exception as ex:  # noqa
        return {"other": type(ex).__name__, "text": str(ex)[:200]}


def nested_types(t: pydsdl.CompositeType):
    for f in t.fields:
        x = f.data_type
        while isinstance(x, pydsdl.ArrayType):
            x = x.element_type
        if isinstance(x, pydsdl.CompositeType):
            yield f.name, x


def check_graph(case, R: engine.Acc):
    nodes = ASSIGNMENTS[case["assignment"]][: case["n"]]
    edges = [tuple(e) for e in case["edges"]]
    cfg = make_config(case["assignment"], edges, case["spelling"])
    cfg["defs"] = cfg["defs"][: case["n"]]
    base = ws.fresh()
    try:
        ws.write_tree(base, {N.file_of(d): d["text"] for d in cfg["defs"]})
        for d in ["r"] + LOOKUPS:
            (base / d).mkdir(parents=True, exist_ok=True)
        has_twins = len({N.ident(d) for d in cfg["defs"]}) < len(cfg["defs"])
        # standalone reads: every definition on its own through read_files (fresh objects per call); keyed by file
        standalone = {}
        for d in cfg["defs"]:
            with engine.deadline(20):
                o = run_public(base, cfg, "rf", [d])
            if "ok" in o:
                standalone[N.file_of(d)] = dump.composite(o["direct"][0])
        ops = [("rn", None)]
        defs = cfg["defs"]
        for k in range(1, len(defs) + 1):
            for sub in itertools.permutations(range(len(defs)), k):
                if has_twins and (len(sub) > 1 or defs[sub[0]]["dir"] != "r"):
                    continue  # several targets with one identity: outside this property (see C10/C13)
                if case.get("light") and len(sub) > 1:
                    continue  # spelling variants of an edge set already explored in full: namespace read and single targets only
                ops.append(("rf", list(sub)))
        if "op" in case:
            ops = [tuple(case["op"])]
        for op, tsel in ops:
            one = {**case, "op": [op, tsel]}
            R.case([case["assignment"], case["edges"], case["spelling"], op, tsel], nontrivial=bool(edges), sample=(len(edges) == 3 and op == "rf" and len(tsel or []) == 2 and len(R.samples) < 3))
            R.state([case["assignment"], case["n"], case["edges"], case["spelling"], op, sorted(tsel or [])])
            R.transitions += 1
            targets = [defs[i] for i in tsel] if tsel is not None else [d for d in defs if d["dir"] == cfg["root"]]
            try:
                if op == "rn":
                    exp = {"ok": N.expected_read_namespace(cfg, cfg["root"], cfg["lookups"])}
                else:
                    ed, et = N.expected_read_files(cfg, targets, [cfg["root"]] + cfg["lookups"])
                    exp = {"ok": ed + et, "direct": ed, "transitive": et}
            except N.Invalid as inv:
                exp = {"ide": str(inv)}
            with engine.deadline(20):
                o = run_public(base, cfg, op, targets)
            R.traces += 1
            if "other" in o:
                R.outcome("foreign-exception")
                R.violation("foreign-exception:" + o["other"], "unresolvable references are reported as InvalidDefinitionError, without looping forever", one, observed=o, expected=exp)
                continue
            if "ide" in exp:
                if "ide" in o:
                    R.outcome("rejected-" + exp["ide"].split(" ")[0])
                else:
                    R.outcome("accepted-unresolvable")
                    R.violation("unresolvable-reference-accepted:" + exp["ide"].split(" ")[0], "a missing, self-referential or cyclic reference is rejected", one, observed=[str(t) for t in o["ok"]], expected=exp)
                continue
            if "ide" in o:
                R.outcome("spurious-reject")
                R.violation("resolvable-reference-rejected:" + o["ide"], "a reference to an existing definition resolves", one, observed=o, expected=exp)
                continue
            got = [str(t) for t in o["ok"]]
            if op == "rf" and ([str(t) for t in o["direct"]] != exp["direct"] or [str(t) for t in o["transitive"]] != exp["transitive"]):
                R.violation("closure-differs", "direct / transitive are the requested files and the rest of the closure", one, observed=[[str(t) for t in o["direct"]], [str(t) for t in o["transitive"]]], expected=[exp["direct"], exp["transitive"]])
                continue
            if op == "rn" and got != exp["ok"]:
                R.violation("namespace-result-differs", "one composite per file", one, observed=got, expected=exp["ok"])
                continue
            bad = False
            for t in o["ok"]:
                me = next(d for d in defs if N.file_of(d) == api.rel(base, t.source_file_path))
                want = []
                for r in me["refs"]:
                    c = [x for x in defs if x["name"] == r[0] and x["ver"] == r[1] and not (x["name"] == me["name"] and x["ver"] == me["ver"])]
                    want.append(N.file_of(c[0]) if len(c) == 1 else "?")
                have = [(n, api.rel(base, x.source_file_path)) for n, x in nested_types(t)]
                if [h[1] for h in have] != want:
                    R.violation("resolved-to-another-definition", "a reference resolves to exactly the definition with that full name and version", one, observed=have, expected=want)
                    bad = True
                    break
                for n, x in nested_types(t):
                    if dump.composite(x) != standalone.get(api.rel(base, x.source_file_path)):
                        R.violation("nested-type-differs-from-standalone-read", "the nested type equals what reading that definition on its own yields", one, observed=str(x))
                        bad = True
                        break
                if dump.composite(t) != standalone.get(api.rel(base, t.source_file_path)):
                    R.violation("type-differs-between-reads", "a type is the same however it is reached", one, observed=str(t))
                    bad = True
                if bad:
                    break
            if not bad:
                R.outcome("resolved")
        # history part: internal read() in every order on one shared list of definition objects
        try:
            N.closure({"defs": defs}, defs, defs)  # every definition, not only those under the target root
            acyclic = True
        except N.Invalid:
            acyclic = False
        if acyclic and "op" not in case and len(defs) <= 3 and not has_twins and not case.get("light"):
            from pydsdl._dsdl_definition import DSDLDefinition

            for order in itertools.permutations(range(len(defs))):
                objs = [DSDLDefinition(base / N.file_of(d), base / d["dir"]) for d in defs]
                cached = []
                for i in order:
                    t = objs[i].read(objs, [], lambda *_a: None, True)
                    cached.append(i)
                    R.state(["hist", case["assignment"], case["n"], case["edges"], case["spelling"], sorted(cached)])
                    R.transitions += 1
                    if dump.composite(t) != standalone.get(N.file_of(defs[i])):
                        R.violation("cached-read-differs", "the result of reading a definition does not depend on what was read before", {**case, "order": list(order)}, observed=str(t))
                        break
                R.traces += 1
                R.outcome("history")
    finally:
        ws.remove(base)


def X(dir_, name, ver, refs=(), raw=None):
    return {"dir": dir_, "name": name, "ver": list(ver), "refs": [[r[0], list(r[1]), r[2] if len(r) > 2 else "abs"] for r in refs], "port": None, "legacy": False, "text": raw}


def check_badrefs(case, R):
    fam = {
        "missing-version": ([X("r", "r.A", (1, 0), [("r.B", (1, 1))]), X("r", "r.B", (1, 0))], "r", ["q"], False),
        "missing-major": ([X("r", "r.A", (1, 0), [("r.B", (2, 0))]), X("r", "r.B", (1, 0)), X("r", "r.B", (1, 1))], "r", ["q"], False),
        "other-version-exists": ([X("r", "r.A", (1, 0), [("r.B", (0, 2))]), X("r", "r.B", (0, 1)), X("r", "r.B", (0, 2)), X("r", "r.B", (1, 0))], "r", ["q"], True),
        "missing-name": ([X("r", "r.A", (1, 0), [("r.Nope", (1, 0))]), X("r", "r.B", (1, 0))], "r", ["q"], False),
        "wrong-case": ([X("r", "r.A", (1, 0), [("r.b", (1, 0))]), X("r", "r.B", (1, 0))], "r", ["q"], False),
        "wrong-case-namespace": ([X("r", "r.A", (1, 0), [("r.S.C", (1, 0))]), X("r", "r.s.C", (1, 0))], "r", ["q"], False),
        "wrong-case-root": ([X("r", "r.A", (1, 0), [("R.B", (1, 0))]), X("r", "r.B", (1, 0))], "r", ["q"], False),
        "relative-to-own-namespace": ([X("r", "r.s.A", (1, 0), [("r.s.C", (1, 0), "rel")]), X("r", "r.s.C", (1, 0)), X("r", "r.C", (1, 0))], "r", ["q"], True),
        "relative-not-in-parent": ([X("r", "r.s.A", (1, 0), [("r.s.Top", (1, 0), "rel")]), X("r", "r.Top", (1, 0))], "r", ["q"], False),
        "relative-not-in-child": ([X("r", "r.A", (1, 0), [("r.Deep", (1, 0), "rel")]), X("r", "r.s.Deep", (1, 0))], "r", ["q"], False),
        "other-root-missing-from-lookup": ([X("r", "r.A", (1, 0), [("q.D", (1, 0))]), X("q", "q.D", (1, 0))], "r", [], False),
        "other-root-in-lookup": ([X("r", "r.A", (1, 0), [("q.D", (1, 0))]), X("q", "q.D", (1, 0))], "r", ["q"], True),
        "duplicate-in-second-root": ([X("r", "r.A", (1, 0), [("r.B", (1, 0))]), X("r", "r.B", (1, 0)), X("q2/r", "r.B", (1, 0))], "r", ["q2/r"], False),
        "duplicate-unreferenced": ([X("r", "r.A", (1, 0), [("r.C", (1, 0))]), X("r", "r.C", (1, 0)), X("r", "r.B", (1, 0)), X("q2/r", "r.B", (1, 0))], "r", ["q2/r"], True),
        "same-name-other-root-different-version": ([X("r", "r.A", (1, 0), [("r.B", (2, 0))]), X("r", "r.B", (1, 0)), X("q2/r", "r.B", (2, 0))], "r", ["q2/r"], True),
        "self": ([X("r", "r.A", (1, 0), [("r.A", (1, 0))])], "r", [], False),
        "self-other-version": ([X("r", "r.A", (0, 2), [("r.A", (0, 1))]), X("r", "r.A", (0, 1))], "r", [], True),
        "cycle-through-lookup-root": ([X("r", "r.A", (1, 0), [("q.D", (1, 0))]), X("q", "q.D", (1, 0), [("r.A", (1, 0))])], "r", ["q"], False),
        "long-chain": ([X("r", "r.N%d" % i, (1, 0), [("r.N%d" % (i + 1), (1, 0))] if i < 11 else []) for i in range(12)], "r", [], True),
        "long-cycle": ([X("r", "r.N%d" % i, (1, 0), [("r.N%d" % ((i + 1) % 12), (1, 0))]) for i in range(12)], "r", [], False),
        "array-and-expression-references": ([X("r", "r.A", (1, 0), raw="r.B.1.0[<=2] a\nB.1.0[3] b\n@assert r.B.1.0.K == 7 && B.1.0._extent_ == 0\n@sealed\n"), X("r", "r.B", (1, 0), raw="uint8 K = 7\n@sealed\n")], "r", [], True),
        "expression-reference-missing": ([X("r", "r.A", (1, 0), raw="@assert r.B.1.1.K == 7\n@sealed\n"), X("r", "r.B", (1, 0), raw="uint8 K = 7\n@sealed\n")], "r", [], False),
    }
    only = case.get("family")
    for name, (defs, root, lookups, ok) in fam.items():
        if only and name != only:
            continue
        cfg = {"root": root, "lookups": lookups, "defs": defs}
        for i, dd in enumerate(defs):
            if dd.get("text") is None:
                lines = ["%s r%d" % (N.ref_expr(dd, r), j) for j, r in enumerate(dd["refs"])] + ["uint8 ID = %d" % (i + 1), "@sealed"]
                dd["text"] = "\n".join(lines) + "\n"
        base = ws.fresh()
        try:
            ws.write_tree(base, {N.file_of(d): d["text"] for d in defs})
            for d in [root] + lookups:
                (base / d).mkdir(parents=True, exist_ok=True)
            R.case(["badrefs", name], nontrivial=True, sample=(name == "wrong-case"))
            R.state(["badrefs", name])
            R.transitions += 1
            R.traces += 1
            with engine.deadline(30):
                o = run_public(base, cfg, "rn")
            one = {"kind": "badrefs", "family": name}
            if "other" in o:
                R.violation("foreign-exception:" + o["other"], "unresolvable references are reported as InvalidDefinitionError, without looping forever", one, observed=o)
            elif ok and "ide" in o:
                R.outcome("spurious-reject")
                R.violation("resolvable-reference-rejected:" + name, "a reference to an existing definition resolves", one, observed=o)
            elif not ok and "ok" in o:
                R.outcome("accepted-unresolvable")
                R.violation("unresolvable-reference-accepted:" + name, "a missing / case-differing / ambiguous / cyclic reference is rejected", one, observed=[str(t) for t in o["ok"]])
            else:
                R.outcome("badref-" + ("resolved" if ok else "rejected"))
                if ok:
                    # the referenced object is the right version
                    for t in o["ok"]:
                        me = next(d for d in defs if N.ident(d) == str(t) and d["dir"] == root)
                        want = ["%s.%d.%d" % (r[0], r[1][0], r[1][1]) for r in me["refs"]]
                        have = [str(x) for _n, x in nested_types(t)]
                        if want and have != want:
                            R.violation("resolved-to-another-definition", "a reference resolves to exactly the definition with that full name and version", one, observed=have, expected=want)
        finally:
            ws.remove(base)


def check_file_twins(case, R):
    """Two FILES of one directory that encode the same full name and version (legacy extension, port-ID prefix): a reference to that
    name and version is ambiguous and must be reported, never resolved to one of them."""
    d = "rns" if case["where"] == "target-root" else "lk"
    a, b = ("uint8 a\n@sealed\n", "uint16 b\n@sealed\n") if case["first"] == "dsdl-is-A" else ("uint16 b\n@sealed\n", "uint8 a\n@sealed\n")
    files = {"%s/Foo.1.0.dsdl" % d: a}
    if case["twin"] in ("legacy-extension", "both"):
        files["%s/Foo.1.0.uavcan" % d] = b
    if case["twin"] in ("port-prefix", "both"):
        files["%s/7000.Foo.1.0.dsdl" % d] = b
    files["rns/User.1.0.dsdl"] = ("%s.Foo.1.0 f\n" % d if case["referenced"] else "uint8 f\n") + "@sealed\n"
    files["rns/Other.1.0.dsdl"] = "@sealed\n"
    R.case(case, nontrivial=True, sample=(case["referenced"] and case["twin"] == "legacy-extension" and len(R.samples) < 2))
    if case["op"] == "rn":
        o = api.read_namespace_tree(files, "rns", ["lk"] if d == "lk" else [])
        expect_reject = case["referenced"] or d == "rns"  # twins among the targets collide even when nothing refers to them
    else:
        o = api.read_files_tree(files, ["rns/User.1.0.dsdl"], ["rns"], ["lk"] if d == "lk" else [])
        expect_reject = case["referenced"]
    if o.error is not None and not o.error["ide"]:
        R.violation("foreign-exception:%s@%s" % (o.error["cls"], o.error.get("culprit")), "ambiguous references are reported as InvalidDefinitionError", case, observed=o.error)
    elif (o.error is not None) != expect_reject:
        if expect_reject:
            got = [t["full_name"] for t in (o.types or [])]
            R.violation("ambiguous-reference-resolved:file-twins", "two definitions with the same name and version are reported instead of being resolved arbitrarily", case, observed=got, expected="InvalidDefinitionError")
        else:
            R.violation("unreferenced-twins-rejected:%s" % o.error["cls"], "definitions nobody refers to do not matter", case, observed=o.error)
    else:
        R.outcome("file-twins-" + ("rejected" if expect_reject else "accepted"))


def check_scale(case, R):
    """Beyond three of everything: dependency chains of up to 60 links read from either end, a dangling reference among a dozen root
    namespaces, an ambiguous reference that is the k-th composite reference of its definition."""
    from ..gen import scale as S

    R.case(case, nontrivial=True, sample=False)
    if case["kind"] == "scale-chain":
        files, names, _prints = S.chain_namespace(case["n"])
        n = case["n"]
        if case["op"] == "rn":
            o = api.read_namespace_tree(files, "cns")
            got = None if o.error else [t["str"] for t in o.types]
            want = names
        else:
            i = {"rf-head": 0, "rf-tail": n - 1, "rf-middle": n // 2}[case["op"]]
            o = api.read_files_tree(files, ["cns/C%03d.1.0.dsdl" % i], ["cns"])
            got = None if o.error else [[t["str"] for t in o.types], [t["str"] for t in o.transitive]]
            want = [[names[i]], names[i + 1 :]]
        if o.error is not None:
            R.violation("valid-chain-rejected:%s" % o.error["cls"], "a reference resolves to the named definition through a chain of any length, whichever end is read first", case, observed=o.error, expected=want)
        elif got != want:
            R.violation("chain-resolved-wrongly", "every link resolves to exactly the named definition", case, observed=got, expected=want)
        else:
            # the nested type of the head is the whole chain, each link equal to the stand-alone read of that link
            top = (o.types[0] if case["op"] != "rn" else o.types[0])
            depth, cur = 0, top
            while True:
                nxt = [a for a in cur["attributes"] if a["name"] == "next"]
                if not nxt:
                    break
                cur = nxt[0]["type"]
                depth += 1
            start = 0 if case["op"] in ("rn", "rf-head") else ({"rf-tail": n - 1, "rf-middle": n // 2}[case["op"]])
            if depth != n - 1 - start:
                R.violation("chain-resolved-wrongly", "every link resolves to exactly the named definition", case, observed=depth, expected=n - 1 - start)
            else:
                R.outcome("scale-ok")
        return
    if case["kind"] == "scale-many-roots":
        files = {"rns/User.1.0.dsdl": {"missing-type": "lk3.Nope.1.0 x\n@sealed\n", "missing-version": "lk2.T.1.7 x\n@sealed\n", "missing-namespace": "nowhere.T.1.0 x\n@sealed\n"}[case["ref"]]}
        lks = []
        for i in range(case["n"]):
            files["lk%d/T.1.0.dsdl" % i] = "@sealed\n"
            lks.append("lk%d" % i)
        o = api.read_namespace_tree(files, "rns", lks)
        if o.error is None or not o.error["ide"]:
            R.violation("dangling-reference-not-rejected-cleanly:%s" % (o.error["cls"] if o.error else "accepted"), "a missing reference is reported as InvalidDefinitionError, however many namespaces were searched", case, observed=o.error)
        else:
            R.outcome("scale-ok")
        return
    # the ambiguous reference is the k-th composite reference of the definition
    k = case["k"]
    files = {"lk/Foo.1.0.dsdl": "uint8 a\n@sealed\n"}
    lks = ["lk"]
    if case["where"] == "two-lookup-roots":
        files["other/lk/Foo.1.0.dsdl"] = "uint16 b\n@sealed\n"
        lks.append("other/lk")
    else:
        files["lk/Foo.1.0.uavcan"] = "uint16 b\n@sealed\n"
    lines = []
    for i in range(k - 1):
        files["lk/Ok%d.1.0.dsdl" % i] = "uint8 v\n@sealed\n"
        lines.append("lk.Ok%d.1.0 ok%d" % (i, i))
    lines += ["lk.Foo.1.0 foo", "@sealed"]
    files["rns/User.1.0.dsdl"] = "\n".join(lines) + "\n"
    o = api.read_namespace_tree(files, "rns", lks)
    if o.error is None:
        R.violation("ambiguous-reference-resolved:kth-reference", "two definitions with the same name and version are reported instead of being resolved arbitrarily", case, observed="accepted", expected="InvalidDefinitionError")
    elif not o.error["ide"]:
        R.violation("foreign-exception:%s@%s" % (o.error["cls"], o.error.get("culprit")), "ambiguous references are reported as InvalidDefinitionError", case, observed=o.error)
    else:
        R.outcome("scale-ok")


def check_case(case, R):
    if str(case.get("kind", "")).startswith("scale-"):
        return check_scale(case, R)
    if case.get("kind") == "file-twins":
        return check_file_twins(case, R)
    if case.get("kind") == "call-history":
        return H.check_history(case["label"], R, H.project_full, 'nested-type-depends-on-earlier-calls', 'a reference resolves to the named definition as it is on disk in THIS call (the nested type equals what reading that definition on its own yields)')
    if case["kind"] == "graph":
        check_graph(case, R)
    else:
        check_badrefs(case, R)


def finish(tier, M):
    need = ["resolved", "rejected-undefined", "badref-rejected", "badref-resolved", "history"]
    miss = [n for n in need if not M.hist.get(n)]
    if miss:
        raise engine.Vacuous("outcome classes not seen: %s (%r)" % (miss, dict(M.hist)))
    return {"assignments": {k: ["%s.%d.%d" % (n, v[0], v[1]) for _d, n, v in a] for k, a in ASSIGNMENTS.items()}}
