"""
C01 - Bit length set algebra is exact for every composition and every divisor.

Three exhaustive sub-spaces on the real pydsdl.BitLengthSet API against ref.bls:
  (A) lemma space: every divisor d <= D, every non-empty residue set R of Z_d, every count k in 0..3d+2 and far
      counts, for repeat / repeat_range; every leaf subset, alignment and divisor for pad_to_alignment (lcm step);
  (B) composition space: every operator tree up to the depth bound over a fixed leaf / count / alignment alphabet,
      every query (min, max, fixed_length, % d, is_aligned_at(d), is_aligned_at_byte, iteration, len), several
      spellings of the same tree (+ / | / reflected operands / concatenate / unite over lists and over one-shot iterators of raw operands);
  (C) query histories: every permutation of the query set on a fresh object per history (memoisation must be
      transparent, operands must never change).
"""
from __future__ import annotations

import itertools

import pydsdl
from pydsdl import BitLengthSet

from .. import engine
from ..ref import bls as ref

ID = "C01"
LEVEL = "model_checking"
DESIGN_REF = "DESIGN.md 4/C01"
# A quick-tier case takes well under a second on a correct tree.  The thorough tier's depth-3 trees with two nested far counts
# (pad(rep(rng(leaf, 2**31), 2**63), 8)) legitimately need minutes of the implementation's own residue enumeration for the 64
# divisors x 2 passes (3.5 s per query, see C16 for what is and is not promised about cost), so the per-case processor-time
# budget must not be tighter than that: 90 s raised 12 false `timeout` alarms in the thorough tier.
CASE_TIMEOUT = 900.0
RULE = (
    "(A) (d, R, op, k): all non-empty R subset of Z_d, d<=D, k in 0..3d+2 plus far counts {2**31, 2**63, 2**63+1, 10**18+9}, "
    "op in {repeat, repeat_range}; (leaf, alignment, d) for padding. (B) all operator trees of the tier's depth over 8 leaves, "
    "counts {0,1,2,3,5}+far, alignments {1,2,3,8} (+{5,12,16,64} at depth 1), plus every cat/uni of two (13-tree alphabet) or three (6-tree alphabet) "
    "COMPOSED operands with one unary operator on top; divisors of the tier plus {2**32, 2**63-1, 10**18+9} when all counts are <= 8, each also asked in "
    "descending order of a fresh object; unions / concatenations of operands that differ as sets but agree in min, max and residues mod 32 (32 such leaves, all ordered pairs); every tree is asked min/max/fixed_length, %d and is_aligned_at(d) for "
    "every d of the tier, is_aligned_at_byte, and iteration/len whenever the implementation's own expansion stays below the "
    "expansion budget. (C) all permutations of the query set on fresh objects. A case is non-trivial iff the tree has an "
    "operator node and either the reference residue set/expansion has >= 2 elements or a repetition count >= divisor is "
    "involved; distinct by canonical hash of (tree, query). states = distinct (tree, set of queries already asked), "
    "transitions = queries asked in histories, traces_validated_against_impl = histories replayed on fresh real objects"
)
ASSUMPTIONS = [
    "ref.bls is the mathematical definition (explicit sets; residues by binary exponentiation of sumsets, self-checked against explicit expansion)",
    "divisors above the tier bound, leaves above 16 elements and depths above the bound are outside the explored space",
]

LEAVES = [[0], [1], [8], [1, 2], [0, 8], [3, 7], [8, 12, 16], [5, 6, 7, 11]]
KS = [0, 1, 2, 3, 5]
FAR = [2**31, 2**63, 2**63 + 1, 10**18 + 9]
AS = [1, 2, 3, 8]
AS_FAR = [5, 16, 64, 12]  # alignments beyond a byte and alignments that share a factor with, but do not divide, common divisors
FAR_DIVISORS = [2**32, 2**63 - 1, 10**18 + 9]  # asked only of trees whose counts are small (the implementation is O(count * |residues|**2))


def leaf(v):
    return ["leaf", list(v)]


def depth1():
    ls = [leaf(v) for v in LEAVES]
    for l in ls:
        for k in KS + FAR:
            yield ["rep", l, k]
            yield ["rng", l, k]
        for a in AS + AS_FAR:
            yield ["pad", l, a]
    for a, b in itertools.product(ls, repeat=2):
        yield ["cat", [a, b]]
        yield ["uni", [a, b]]
    for a, b, c in itertools.product(ls[3:7], repeat=3):
        yield ["cat", [a, b, c]]
        yield ["uni", [a, b, c]]


def grow(children):
    """All trees whose root has one non-leaf child taken from `children` (other operands are leaves)."""
    ls = [leaf(v) for v in LEAVES]
    for t in children:
        for k in KS + FAR:
            yield ["rep", t, k]
            yield ["rng", t, k]
        for a in AS:
            yield ["pad", t, a]
        for l in ls:
            yield ["cat", [t, l]]
            yield ["cat", [l, t]]
            yield ["uni", [t, l]]
            yield ["uni", [l, t]]


def small_depth1():
    """A reduced depth-1 alphabet (one or two representatives per operator) for binary nodes with BOTH operands composed."""
    a, b, c = leaf([1, 2]), leaf([3, 7]), leaf([8, 12, 16])
    return [
        ["rep", a, 3], ["rep", b, 5], ["rep", c, 2**63 + 1], ["rng", a, 2], ["rng", b, 5], ["rng", c, 2**31],
        ["pad", a, 3], ["pad", b, 8], ["pad", c, 5], ["cat", [a, b]], ["cat", [c, leaf([5, 6, 7, 11])]], ["uni", [a, c]], ["uni", [b, leaf([0])]],
    ]


def both_composed():
    """cat / uni of two and three depth-1 trees (every ordered pair, every ordered triple of a 6-tree sub-alphabet), then one unary operator on top."""
    s1 = small_depth1()
    for x, y in itertools.product(s1, repeat=2):
        for op in ("cat", "uni"):
            t = [op, [x, y]]
            yield t
            yield ["pad", t, 3]
            yield ["pad", t, 8]
            yield ["rep", t, 3]
            yield ["rng", t, 2**63]
    for x, y, z in itertools.product(s1[::2][:6], repeat=3):
        yield ["cat", [x, y, z]]
        yield ["uni", [x, y, z]]


def colliding_leaves():
    """32 DIFFERENT sets that the approximate BitLengthSet.__eq__/__hash__ cannot tell apart: same min (0), same max (200), same
    residues modulo 32 ({0, 8}).  Anything keyed by that equality (de-duplication, caches) confuses them."""
    mid = [40, 72, 104, 136, 168]
    out = []
    for mask in range(32):
        out.append(leaf([0] + [m for i, m in enumerate(mid) if mask >> i & 1] + [200]))
    return out


def collisions():
    """unions / concatenations whose operands collide under the approximate equality, bare and under one more operator"""
    ls = colliding_leaves()
    for a, b in itertools.permutations(ls, 2):
        yield ["uni", [a, b]]
    for a, b in itertools.permutations(ls[::3], 2):
        yield ["cat", [a, b]]
        yield ["uni", [["pad", a, 16], ["pad", b, 16]]]
        yield ["uni", [["rep", a, 2], ["rep", b, 2]]]
        yield ["cat", [["uni", [a, leaf([8])]], ["uni", [b, leaf([8])]]]]
        yield ["pad", ["uni", [a, b]], 64]
    for a, b, c in itertools.permutations(ls[1::5], 3):
        yield ["uni", [a, b, c]]
        yield ["uni", [a, ["uni", [b, c]]]]


def trees(depth: int):
    if depth == "collisions":
        yield from collisions()
        return
    if depth == 0:
        for v in LEAVES:
            yield leaf(v)
    elif depth == 1:
        yield from depth1()
    elif depth == 2:
        yield from grow(depth1())
    elif depth == "both":
        yield from both_composed()
    elif depth == 3:
        # every 16th depth-2 tree as the non-leaf child (a stated slice: the full depth-3 space is 1.26 M trees x 67 divisors; the
        # slice of every 4th took 3.5 hours on a loaded machine and was cut)
        yield from grow(t for i, t in enumerate(grow(depth1())) if i % 16 == 0)


def build(t, spelling: int = 0) -> BitLengthSet:
    k = t[0]
    if k == "leaf":
        return BitLengthSet(t[1][0]) if (len(t[1]) == 1 and spelling == 1) else BitLengthSet(list(t[1]))
    if k == "rep":
        return build(t[1], spelling).repeat(t[2])
    if k == "rng":
        return build(t[1], spelling).repeat_range(t[2])
    if k == "pad":
        return build(t[1], spelling).pad_to_alignment(t[2])
    if k in ("cat", "uni"):
        if spelling == 0:
            ch = [build(c, spelling) for c in t[1]]
            return BitLengthSet.concatenate(ch) if k == "cat" else BitLengthSet.unite(ch)
        if spelling == 3:
            # the n-ary constructors take any Iterable: a one-shot iterator whose leaves are raw python operands (ints first)
            ops = [(c[1][0] if len(c[1]) == 1 else (set(c[1]) if i % 2 else list(c[1]))) if c[0] == "leaf" else build(c, 0) for i, c in enumerate(t[1])]
            it = iter(ops) if len(ops) % 2 else (o for o in ops)
            return BitLengthSet.concatenate(it) if k == "cat" else BitLengthSet.unite(it)

        # operator spellings; leaves are passed as raw python operands (reflected operators, int/set/list coercion)
        def operand(c, i):
            if c[0] == "leaf":
                if len(c[1]) == 1 and (i + spelling) % 2 == 0:
                    return c[1][0]
                return set(c[1]) if spelling == 1 else list(c[1])
            return build(c, spelling)

        ops = [operand(c, i) for i, c in enumerate(t[1])]
        if not any(isinstance(o, BitLengthSet) for o in ops[:2]):
            ops[spelling % 2] = BitLengthSet(ops[spelling % 2])
        acc = ops[0]
        for o in ops[1:]:
            acc = (acc + o) if k == "cat" else (acc | o)
        assert isinstance(acc, BitLengthSet)
        return acc
    raise ValueError(k)


def has_op(t) -> bool:
    return t[0] != "leaf"


def max_count(t) -> int:
    if t[0] == "leaf":
        return 0
    if t[0] in ("rep", "rng"):
        return max(t[2], max_count(t[1]))
    if t[0] == "pad":
        return max_count(t[1])
    return max(max_count(c) for c in t[1])


# ---------------------------------------------------------------------------------------------------------------
def plan(tier):
    shards = []
    D_all = 7 if tier == "quick" else 9
    for d in range(1, D_all + 1):
        n = 1 << d
        parts = 1 if n <= 64 else (8 if d <= 8 else 32)
        for p in range(parts):
            shards.append({"kind": "lemma", "d": d, "part": p, "parts": parts, "maxsize": d})
    D_small = 12 if tier == "quick" else 24
    for d in range(D_all + 1, D_small + 1):
        shards.append({"kind": "lemma", "d": d, "part": 0, "parts": 1, "maxsize": 3})
    npad = 10 if tier == "quick" else 12
    for a in range(1, 9):
        shards.append({"kind": "padlemma", "a": a, "n": npad})
    depth = 2 if tier == "quick" else 3
    parts = 64 if tier == "quick" else 512
    for dd in range(0, depth + 1):
        pp = 1 if dd < 2 else parts
        for p in range(pp):
            shards.append({"kind": "trees", "depth": dd, "part": p, "parts": pp})
    for p in range(16):
        shards.append({"kind": "trees", "depth": "both", "part": p, "parts": 16})
    for p in range(8):
        shards.append({"kind": "trees", "depth": "collisions", "part": p, "parts": 8})
    for p in range(16):
        shards.append({"kind": "hist", "part": p, "parts": 16})
    shards.append({"kind": "from-types"})
    shards += [{"kind": "scale", "part": p, "parts": 16} for p in range(16)]
    return shards


def divisors(tier, t):
    if tier == "quick":
        ds = list(range(1, 17)) + [32, 64]
    else:
        ds = list(range(1, 65))
        if max_count(t) <= 8:
            ds += [255, 256, 12345]
    if max_count(t) <= 8:
        ds += FAR_DIVISORS
    return ds


def cases(shard, tier):
    kind = shard["kind"]
    if kind == "lemma":
        d = shard["d"]
        idx = 0
        for size in range(1, shard["maxsize"] + 1):
            for R in itertools.combinations(range(d), size):
                if idx % shard["parts"] == shard["part"]:
                    yield {"kind": "lemma", "d": d, "R": list(R)}
                idx += 1
    elif kind == "padlemma":
        for mask in range(1, 1 << shard["n"]):
            yield {"kind": "padlemma", "a": shard["a"], "leaf": [i for i in range(shard["n"]) if mask >> i & 1]}
    elif kind == "trees":
        for i, t in enumerate(trees(shard["depth"])):
            if i % shard["parts"] == shard["part"]:
                yield {"kind": "tree", "tree": t, "tier": tier}
    elif kind == "scale":
        cs = []
        for t in (["cat", [leaf([1, 2]), ["rng", leaf([3, 7]), 5]]], ["pad", ["rep", leaf([5, 6, 7, 11]), 3], 3], ["uni", [["rep", leaf([8, 12, 16]), 2**31], leaf([1])]], ["rng", ["cat", [leaf([1, 2]), leaf([0, 8])]], 2**63]):
            cs.append({"kind": "scale", "what": "many-divisors", "tree": t, "n": 300})
        for lf in ([257, 771], [8, 24], [1, 2], [3, 7, 12], [100, 613]):
            for k in (1025, 1500, 2**31 + 7) if tier == "quick" else (1025, 1500, 2049, 4097, 2**31 + 7):
                for d in (513, 771, 1028) if tier == "quick" else (513, 771, 1024, 1028, 1543, 2048):
                    cs.append({"kind": "scale", "what": "large-count-and-divisor", "leaf": lf, "k": k, "d": d})
        for n in (17, 18, 24, 33, 40, 64, 100):
            cs.append({"kind": "scale", "what": "large-leaves", "n": n})
        for i, c in enumerate(cs):
            if i % shard["parts"] == shard["part"]:
                yield c
    elif kind == "from-types":
        for g in range(4):
            yield {"kind": "from-types", "what": "union", "group": g}
        for elem in (["uint", 8, "s"], ["varr", ["uint", 8, "s"], 1], ["varr", ["uint", 32, "s"], 2], ["struct", [["varr", ["uint", 64, "s"], 1]]]):
            yield {"kind": "from-types", "what": "offsets", "elem": elem}
    elif kind == "hist":
        fam = list(trees(0)) + list(trees(1))
        # plus a slice of depth 2: every 97th tree
        fam += [t for i, t in enumerate(trees(2)) if i % 97 == 0]
        for i, t in enumerate(fam):
            if i % shard["parts"] == shard["part"]:
                yield {"kind": "hist", "tree": t, "tier": tier}


# ---------------------------------------------------------------------------------------------------------------
def _viol(R, fp, clause, case, obs, exp):
    R.violation(fp, clause, case, observed=obs, expected=exp)


def check_lemma(case, R):
    d, Rs = case["d"], case["R"]
    vals = [r + d * (i + 1) * (3 if i % 2 else 1) for i, r in enumerate(Rs)]  # residues and magnitudes decoupled
    t_leaf = leaf(vals)
    ks = case.get("ks") or (list(range(0, 3 * d + 3)) + FAR)
    for op in case.get("ops") or ("rep", "rng"):
        for k in ks:
            t = [op, t_leaf, k]
            b = build(t)
            got = sorted(b % d)
            exp = sorted(ref.residues(t, d))
            one = {"kind": "lemma", "d": d, "R": Rs, "ops": [op], "ks": [k]}
            R.case(one, nontrivial=(len(exp) >= 2 or k >= d), sample=(k == d + 1 and len(Rs) == 2))
            R.outcome("lemma-k>=d" if k >= d else "lemma-k<d")
            if got != exp:
                _viol(R, "residues-%s-count-%s-divisor" % (op, ">=" if k >= d else "<"), "%% d of %s equals the k-fold sumset residues" % op, one, got, exp)
            if b.min != ref.tmin(t) or b.max != ref.tmax(t):
                _viol(R, "minmax-" + op, "min/max", one, [b.min, b.max], [ref.tmin(t), ref.tmax(t)])


def check_padlemma(case, R):
    a, lf = case["a"], case["leaf"]
    t = ["pad", leaf(lf), a]
    b = build(t)
    for d in range(1, 9):
        got = sorted(b % d)
        exp = sorted(ref.residues(t, d))
        R.case({"kind": "padlemma", "a": a, "leaf": lf, "d": d}, nontrivial=len(exp) >= 2, sample=False)
        if got != exp:
            _viol(R, "residues-pad-lcm", "% d of a padded set (lcm step)", {"kind": "padlemma", "a": a, "leaf": lf}, {"d": d, "got": got}, exp)
    R.outcome("padlemma")
    if b.min != ref.tmin(t) or b.max != ref.tmax(t) or not b.is_aligned_at(a):
        _viol(R, "minmax-pad", "min/max/alignment of a padded set", {"kind": "padlemma", "a": a, "leaf": lf}, [b.min, b.max], [ref.tmin(t), ref.tmax(t)])


EXPANSION_BUDGET = {"quick": 2e4, "thorough": 1e5}


def analytic_answers(b: BitLengthSet, ds) -> dict:
    out = {"min": b.min, "max": b.max, "fixed": b.fixed_length, "byte": b.is_aligned_at_byte()}
    for d in ds:
        out["%%%d" % d] = sorted(b % d)
        out["al%d" % d] = b.is_aligned_at(d)
    return out


def reference_answers(t, ds) -> dict:
    mn, mx = ref.tmin(t), ref.tmax(t)
    out = {"min": mn, "max": mx, "fixed": mn == mx, "byte": ref.residues(t, 8) == frozenset([0])}
    for d in ds:
        r = ref.residues(t, d)
        out["%%%d" % d] = sorted(r)
        out["al%d" % d] = r == frozenset([0])
    return out


def root_kind(t):
    return t[0]


def check_tree(case, R):
    t, tier = case["tree"], case.get("tier", "quick")
    ds = case.get("ds") or divisors(tier, t)
    exp = reference_answers(t, ds)
    nontriv = has_op(t) and (any(len(exp["%%%d" % d]) >= 2 for d in ds) or any(max_count(t) >= d for d in ds))
    spellings = [0] + ([1, 2, 3] if t[0] in ("cat", "uni") else [])
    for sp in spellings:
        b = build(t, sp)
        got = analytic_answers(b, ds)
        R.case({"kind": "tree", "tree": t, "spelling": sp}, nontrivial=nontriv, sample=(sp == 0 and t[0] == "pad" and t[1][0] == "rng"))
        R.counters["queries"] += 2 * len(ds) + 4
        if got != exp:
            bad = sorted(k for k in exp if got.get(k) != exp[k])
            k0 = bad[0]
            cls = "min/max" if k0 in ("min", "max", "fixed") else ("alignment" if k0.startswith("al") or k0 == "byte" else "residues")
            _viol(R, "tree-%s-%s" % (cls, root_kind(t)), "analytic %s equals the mathematical set" % cls, {"kind": "tree", "tree": t, "tier": tier, "ds": [int(k0[1:])] if k0[0] == "%" else ([int(k0[2:])] if k0.startswith("al") else ds[:1])}, {k: got.get(k) for k in bad[:6]}, {k: exp[k] for k in bad[:6]})
            R.outcome("tree-mismatch")
        else:
            R.outcome("tree-match")
        if sp == 0 and has_op(t):
            # the same divisors asked of a fresh object in DESCENDING order (alignment first): an answer must not depend on
            # which other divisors were asked before it (per-node caches keyed by divisor)
            b2 = build(t, 0)
            for d in reversed(ds):
                al = b2.is_aligned_at(d)
                r = sorted(b2 % d)
                R.counters["queries"] += 2
                if r != exp["%%%d" % d] or al != exp["al%d" % d]:
                    _viol(R, "tree-residues-descending-%s" % root_kind(t), "analytic residues do not depend on the order in which divisors are asked", {"kind": "tree", "tree": t, "tier": tier, "ds": ds}, {"d": d, "got": r, "aligned": al}, {"residues": exp["%%%d" % d], "aligned": exp["al%d" % d]})
                    break
        # numerical expansion
        if sp == 0 and ref.impl_expansion_cost(t) <= EXPANSION_BUDGET[tier]:
            e = ref.try_expand(t)
            if e is not None:
                with engine.deadline(30):
                    items = list(b)
                    n = len(b)
                R.counters["expansions"] += 1
                if set(items) != set(e) or n != len(e) or len(items) != len(e):
                    _viol(R, "expansion-" + root_kind(t), "iteration/len yield exactly the mathematical set", {"kind": "tree", "tree": t, "tier": tier, "ds": [1]}, {"len": n, "items": sorted(items)[:50]}, {"len": len(e), "items": sorted(e)[:50]})
        elif sp == 0:
            R.counters["analytic_only"] += 1


QUERIES = ["min", "max", "%3", "%8", "expand", "parents"]


def _ask(b: BitLengthSet, t, q: str, expandable: bool):
    """Returns (observed, expected) for one query against object b representing tree t."""
    if q == "min":
        return b.min, ref.tmin(t)
    if q == "max":
        return b.max, ref.tmax(t)
    if q[0] == "%":
        d = int(q[1:])
        return sorted(b % d), sorted(ref.residues(t, d))
    if q == "expand":
        if not expandable:
            return (b.fixed_length, b.is_aligned_at(5)), (ref.tmin(t) == ref.tmax(t), ref.residues(t, 5) == frozenset([0]))
        return (sorted(b), len(b)), (sorted(ref.expand(t)), len(ref.expand(t)))
    if q == "parents":
        obs, exp = [], []
        l = ["leaf", [3, 7]]
        parents = [
            (["rep", t, 2], lambda: b.repeat(2)),
            (["rng", t, 2], lambda: b.repeat_range(2)),
            (["pad", t, 3], lambda: b.pad_to_alignment(3)),
            (["cat", [t, l]], lambda: b + {3, 7}),
            (["uni", [l, t]], lambda: [3, 7] | b),
            (["uni", [t, l]], lambda: BitLengthSet.unite([b, BitLengthSet([3, 7])])),
        ]
        for pt, mk in parents:
            p = mk()
            obs.append([p.min, p.max, sorted(p % 3), sorted(p % 8)])
            exp.append([ref.tmin(pt), ref.tmax(pt), sorted(ref.residues(pt, 3)), sorted(ref.residues(pt, 8))])
            if expandable and ref.impl_expansion_cost(pt) <= 5000:
                e = ref.try_expand(pt)
                if e is not None:
                    obs.append(sorted(p))
                    exp.append(sorted(e))
        return obs, exp
    raise ValueError(q)


def check_hist(case, R):
    t, tier = case["tree"], case.get("tier", "quick")
    expandable = ref.impl_expansion_cost(t) <= 5000 and ref.try_expand(t) is not None
    qs = QUERIES if tier == "thorough" else QUERIES[:1] + QUERIES[2:]  # quick: 5 queries -> 120 histories
    perms = [case["perm"]] if "perm" in case else itertools.permutations(qs)
    for perm in perms:
        perm = list(perm)
        b = build(t)
        asked = []
        ok = True
        for q in perm:
            obs, exp = _ask(b, t, q, expandable)
            asked.append(q)
            R.state([t, sorted(asked)])
            R.transitions += 1
            if obs != exp:
                _viol(R, "history-answer-" + q.strip("0123456789"), "every answer in every query history equals the reference (memoisation transparent)", {"kind": "hist", "tree": t, "tier": tier, "perm": perm}, {"after": asked, "got": obs}, exp)
                ok = False
                break
        if ok:
            # operands never changed: ask everything once more, in a fixed order, on the same object
            for q in qs:
                obs, exp = _ask(b, t, q, expandable)
                R.transitions += 1
                if obs != exp:
                    _viol(R, "history-reask-" + q.strip("0123456789"), "answers are unchanged after parents were built and queried (operands never change)", {"kind": "hist", "tree": t, "tier": tier, "perm": perm}, {"reasked": q, "got": obs}, exp)
                    break
        R.traces += 1
        R.case({"kind": "hist", "tree": t, "perm": perm}, nontrivial=has_op(t), sample=(has_op(t) and perm[0] == "parents"))
        R.outcome("history")


COLLIDING_BASES = [[[0, 32, 128], [0, 64, 128]], [[0, 64, 128], [0, 32, 128], [0, 32, 64, 128]], [[8, 40], [8, 40, 72], [8, 72], [8, 40]], [[0, 8, 16], [0, 16]]]


def check_from_types(case, R):
    """Bit length sets that the TYPE MODEL hands out or consumes are bit length sets too: exact for every query."""
    from ..gen import types as T
    from ..ref import layout as L

    if case["what"] == "union":
        g = T.COLLIDERS[case["group"]]
        for a, b in itertools.permutations(g, 2):
            for desc in (["union", [a, b]], ["struct", [a, b]], ["union", [["uint", 8, "s"], b, a]]):
                t = T.build(desc)
                E = L.lengths(desc)
                bls = t.bit_length_set
                R.case(["from-types", desc], nontrivial=True, sample=False)
                got = {"min": bls.min, "max": bls.max, "set": sorted(bls), "len": len(bls)}
                exp = {"min": min(E), "max": max(E), "set": sorted(E), "len": len(E)}
                for d in (3, 5, 7, 8, 24, 32, 40, 64):
                    got["%%%d" % d] = sorted(bls % d)
                    exp["%%%d" % d] = sorted({x % d for x in E})
                    got["al%d" % d] = bls.is_aligned_at(d)
                    exp["al%d" % d] = all(x % d == 0 for x in E)
                if got != exp:
                    bad = sorted(k for k in exp if got[k] != exp[k])
                    _viol(R, "type-derived-set-" + desc[0], "a set built by the type model from the public operations answers exactly like the mathematical set", case, {k: got[k] for k in bad[:4]}, {k: exp[k] for k in bad[:4]})
                    return
        R.outcome("from-types")
        return
    # offsets computed for several user-built base sets, one after the other, on ONE type object
    elem = case["elem"]
    arr = T.build(["struct", [["farr", elem, 3]]]).fields[0].data_type
    st = T.build(["struct", [elem, ["uint", 8, "s"], elem]])
    Ee = L.lengths(elem)
    for bases in COLLIDING_BASES:
        for base in bases:
            R.case(["from-types-offsets", elem, base], nontrivial=True, sample=False)
            cur = set(base)
            exp_elems = []
            for _i in range(3):
                exp_elems.append(sorted(cur))
                cur = {x + y for x in cur for y in Ee}
            got_elems = [sorted(o) for _i, o in arr.enumerate_elements_with_offsets(BitLengthSet(base))]
            cur = set(base)
            exp_fields = [sorted(cur)]
            cur = {x + y for x in cur for y in Ee}
            exp_fields.append(sorted(cur))
            cur = {x + 8 for x in cur}
            exp_fields.append(sorted(cur))
            got_fields = [sorted(o) for _f, o in st.iterate_fields_with_offsets(BitLengthSet(base))]
            if got_elems != exp_elems or got_fields != exp_fields:
                _viol(R, "type-derived-offsets", "offset sets computed from a user-built base set are exactly base (+) lengths of what precedes, whatever bases were asked before on the same object", {**case, "base": base}, [got_elems, got_fields], [exp_elems, exp_fields])
                return
    R.outcome("from-types")


def check_scale(case, R):
    """Beyond small scope: hundreds of divisors asked of ONE object, counts and divisors in the thousands, leaves of dozens of elements."""
    what = case["what"]
    if what == "many-divisors":
        t = case["tree"]
        b = build(t)
        first = {}
        order = list(range(1, case["n"] + 1))
        for rnd in range(2):
            for d in (order if rnd == 0 else order[:40] + order[-5:]):
                got = sorted(b % d)
                R.counters["queries"] += 1
                if rnd == 0:
                    first[d] = got
                exp = sorted(ref.residues(t, d))
                if got != exp or b.is_aligned_at(d) != (exp == [0]):
                    _viol(R, "residues-after-many-divisors", "% d is exact, however many other divisors were asked of the same object before", {**case, "d": d, "round": rnd}, got, exp)
                    return
        R.case(case, nontrivial=True, sample=False)
        R.outcome("scale")
        return
    if what == "large-count-and-divisor":
        lf, k, d = case["leaf"], case["k"], case["d"]
        for op in ("rep", "rng"):
            t = [op, leaf(lf), k]
            with engine.deadline(60):
                got = sorted(build(t) % d)
            exp = sorted(ref.residues(t, d))
            R.case([case, op], nontrivial=True, sample=False)
            if got != exp:
                _viol(R, "residues-%s-large-count-and-divisor" % op, "% d of a repetition equals the k-fold sumset residues for counts and divisors in the thousands as well", {**case, "op": op}, got[:20], exp[:20])
                return
        R.outcome("scale")
        return
    # large leaves: two leaves of n elements that agree in their smallest and largest few elements and in their size, differ in the middle
    n = case["n"]
    a = [8 * i for i in range(n)]
    bb = list(a)
    bb[n // 2] += 4
    ta, tb = leaf(a), leaf(bb)
    for t in (["uni", [ta, tb]], ["uni", [tb, ta, leaf([1])]], ["cat", [["uni", [ta, tb]], leaf([0, 1])]], ["pad", ["uni", [ta, tb]], 16], ["uni", [["rep", ta, 2], ["rep", tb, 2]]]):
        b = build(t)
        E = ref.expand(t)
        R.case([case, t[0]], nontrivial=True, sample=False)
        got = {"min": b.min, "max": b.max, "len": len(b), "set": sorted(b), "%8": sorted(b % 8), "%5": sorted(b % 5), "al8": b.is_aligned_at(8)}
        exp = {"min": min(E), "max": max(E), "len": len(E), "set": sorted(E), "%8": sorted({x % 8 for x in E}), "%5": sorted({x % 5 for x in E}), "al8": all(x % 8 == 0 for x in E)}
        if got != exp:
            bad = sorted(k for k in exp if got[k] != exp[k])
            _viol(R, "large-leaves-" + t[0], "operands with dozens of elements are combined exactly", {**case, "tree_root": t[0]}, {k: (got[k] if k != "set" else len(got[k])) for k in bad}, {k: (exp[k] if k != "set" else len(exp[k])) for k in bad})
            return
    R.outcome("scale")


def check_case(case, R):
    if case["kind"] == "scale":
        return check_scale(case, R)
    if case["kind"] == "from-types":
        return check_from_types(case, R)
    k = case["kind"]
    if k == "lemma":
        check_lemma(case, R)
    elif k == "padlemma":
        check_padlemma(case, R)
    elif k == "tree":
        check_tree(case, R)
    elif k == "hist":
        check_hist(case, R)
    else:
        raise ValueError(k)


def worker_init():
    n = ref.selfcheck()
    assert n > 1000


def finish(tier, M):
    if M.hist.get("lemma-k>=d", 0) == 0 or M.counters.get("expansions", 0) == 0 or M.hist.get("history", 0) == 0 or M.hist.get("from-types", 0) == 0:
        raise engine.Vacuous("a sub-space was not visited: %r" % dict(M.hist))
    return {
        "bounds": {
            "quick": "lemma: all R for d<=7, |R|<=3 for d<=12, k<=3d+2+far; pad: all leaves subset of 0..9, a<=8, d<=8; trees depth<=2 and the both-operands-composed family, d in 1..16,32,64 (+3 far divisors for small counts), ascending and descending; histories: 5 queries (120 permutations + re-ask) on depth<=1 trees and a slice of depth 2",
            "thorough": "lemma: all R for d<=9, |R|<=3 for d<=24; pad: leaves subset of 0..11; trees depth<=2 in full and depth 3 over every 16th depth-2 child (one non-leaf child per node) and the both-operands-composed family, d in 1..64 (+255,256,12345 when counts<=8); histories: 6 queries (720 permutations)",
        }[tier],
        "reference_selfcheck": "ref.bls.selfcheck(): explicit expansion vs modular exponentiation on >1000 (tree, divisor) pairs in every worker",
    }
