"""
C08 - Field offsets and in-language layout intrinsics equal the real bit positions.

For every composite of the bounded grammar, the start bit of every field is OBSERVED on the wire: every *shape*
(every combination of array lengths and union variants) is encoded by the reference codec with a position trace, and
each such encoding is validated byte-for-byte against the real serializer (this binds "offset" to "real bit position").
The API's offset sets must equal { pad(b, alignment) + start } over all bases b and shapes, for every base offset set.
The same positions are cross-checked with the cursor formulation of ref.layout, and the in-language intrinsics
(_offset_, _bit_length_, _extent_) are evaluated through DSDL text.
"""
from __future__ import annotations

import itertools
import re

import pydsdl
from pydsdl import BitLengthSet

from .. import api, engine
from ..gen import types as T
from ..ref import codec as C
from ..ref import layout as L
from . import c06

ID = "C08"
LEVEL = "exploration"
DESIGN_REF = "DESIGN.md 4/C08"
RULE = (
    "case = (composite type, base offset set, field index): all structures <=3 fields / unions 2..3 variants over the depth-1 "
    "field alphabet (sealed and delimited), the depth-2 family of C06, fixed arrays over them; base sets {0},{8},{1},{4,8},"
    "{0,3,16},{0,8,16,24}; every field / element. Intrinsics: every structure <=3 fields over a 10-type alphabet with @print "
    "_offset_ at every position, unions after the last variant, T._bit_length_/T._extent_ of every dependency. Non-trivial iff "
    "field index >= 1 or the base set is multi-valued; distinct by canonical hash of (type, base, index)"
)
ASSUMPTIONS = [
    "real bit positions are those of ref.codec's position trace; every trace used is validated byte-for-byte against pydsdl.serialize on the same (type, value)",
    "shapes enumerate every array length 0..capacity and every union variant; scalar values do not influence positions",
]

BASES = [[0], [8], [1], [4, 8], [0, 3, 16], [0, 8, 16, 24]]
COLLIDING_BASES = [[16, 24, 48, 56], [16, 24, 56], [0, 32, 128], [0, 64, 128], [16, 24, 48, 56]]  # pairs agree in min, max, residues mod 32
SHAPE_CAP = 4000


class TooMany(Exception):
    pass


def shapes(desc):
    k = desc[0]
    if k == "bool":
        return [False]
    if k in ("uint", "int", "byte", "utf8"):
        return [0]
    if k == "float":
        return [0.0]
    if k in ("farr", "varr"):
        e = desc[1]
        lens = [desc[2]] if k == "farr" else list(range(desc[2] + 1))
        if e[0] == "utf8":
            return ["a" * n for n in lens]
        if e[0] == "byte":
            return [bytes(n) for n in lens]
        es = shapes(e)
        out = []
        for n in lens:
            if len(es) ** n > SHAPE_CAP:
                raise TooMany
            for combo in itertools.product(es, repeat=n):
                out.append(list(combo))
                if len(out) > SHAPE_CAP:
                    raise TooMany
        return out
    if k == "struct":
        named = [(i, f) for i, f in enumerate(desc[1]) if f[0] != "void"]
        alphas = [shapes(f) for _i, f in named]
        n = 1
        for a in alphas:
            n *= len(a)
            if n > SHAPE_CAP:
                raise TooMany
        return [{("f%d" % i): v for (i, _f), v in zip(named, combo)} for combo in itertools.product(*alphas)]
    if k == "union":
        out = []
        for i, f in enumerate(desc[1]):
            out += [{("f%d" % i): v} for v in shapes(f)]
        if len(out) > SHAPE_CAP:
            raise TooMany
        return out
    if k == "delim":
        return shapes(desc[1])
    raise ValueError(desc)


def field_keys(desc):
    inner = desc[1] if desc[0] == "delim" else desc
    return [("pad%d" % i if f[0] == "void" else "f%d" % i) for i, f in enumerate(inner[1])]


def observed_starts(desc, t, R, one):
    """start bit sets per top-level field, from validated reference traces over all shapes"""
    keys = field_keys(desc)
    inner = desc[1] if desc[0] == "delim" else desc
    starts = {k: set() for k in keys}
    for v in shapes(desc):
        trace: list = []
        with_header = desc[0] == "delim"
        want = C.encode(desc, v, with_header=with_header, trace=trace)
        got = pydsdl.serialize(t, v, with_delimiter_header=with_header)
        R.traces_validated += 1
        if got != want:
            R.violation("trace-not-validated", "reference trace agrees with the real serializer (see C06)", one, observed=got.hex(), expected=want.hex())
            return None
        top = {p: o for p, o in trace if p in starts}
        if inner[0] == "union":
            (name,) = v.keys()
            starts[name].add(top[name])
        else:
            for k in keys:
                starts[k].add(top[k])
    return starts


def cursor_starts(desc):
    """The same sets from ref.layout's cursor formulation (base 0)."""
    inner = desc[1] if desc[0] == "delim" else desc
    h = L.header_width(desc) if desc[0] == "delim" else 0
    out = []
    if inner[0] == "union":
        return [frozenset([h + L.tag_width(inner)])] * len(inner[1])
    cur = frozenset([h])
    for f in inner[1]:
        a = L.align(f)
        cur = frozenset(L.pad(c, a) for c in cur)
        out.append(cur)
        cur = L.advance(cur, f)
    return out


def contains_delim(desc) -> bool:
    k = desc[0]
    if k == "delim":
        return True
    if k in ("farr", "varr"):
        return contains_delim(desc[1])
    if k in ("struct", "union"):
        return any(contains_delim(f) for f in desc[1])
    return False


def types_for(tier):
    seen = set()
    for d in itertools.chain(T.structs(T.F1, 3, 1), T.unions(T.F1, 3)):
        yield d
        yield ["delim", d, -(-L.tmax(d) // 8) * 8 + 8]
    for i, d in enumerate(c06.depth2(tier)):
        k = T.key(d)
        if k not in seen:
            seen.add(k)
            yield d
    if tier != "quick":
        for i, d in enumerate(c06.depth3(tier)):
            if i % 3 == 0:
                yield d
    for d in T.medium(tier):  # more than three of everything
        yield d


INTR_ALPHA = T.LEAF7 + [T.ARR5[0], T.ARR5[1], T.ARR5[2]]
INTR_DEPS = [["struct", [["bool"]]], ["struct", [["varr", ["uint", 8, "s"], 2]]], ["union", [["bool"], ["int", 16]]], ["delim", ["struct", [["uint", 8, "s"]]], 16]]


def intrinsic_types(tier):
    alpha = INTR_ALPHA + INTR_DEPS
    for d in T.structs(alpha, 3 if tier != "quick" else 2, 0):
        yield d
    if tier == "quick":
        for a, b, c in itertools.product(INTR_ALPHA[:6] + INTR_DEPS[:2], repeat=3):
            yield ["struct", [a, b, c]]
    for d in T.unions(alpha, 3 if tier != "quick" else 2):
        yield d
    # beyond three fields: 8..20 fields (fixed-length so that _offset_ stays cheap to print), byte-aligned composites late in the list;
    # unions of 16..18 variants two of which cannot be told apart by an approximate set comparison
    fixed = [["bool"], ["uint", 3, "s"], ["uint", 8, "s"], ["uint", 17, "t"], ["void", 5], ["farr", ["uint", 3, "s"], 2], INTR_DEPS[0], ["farr", INTR_DEPS[0], 2]]
    for n in (8, 9, 10, 16, 17, 20):
        for start in range(len(fixed)):
            for step in (1, 3):
                yield ["struct", [fixed[(start + i * step) % len(fixed)] for i in range(n)]]
    # dependencies whose extent (and length) is ZERO: an empty sealed structure, an empty type with @extent 0, a structure of empties
    empties = [["struct", []], ["delim", ["struct", []], 0], ["struct", [["struct", []]]], ["struct", [["farr", ["struct", []], 3]]]]
    for e in empties:
        yield ["struct", [e]]
        yield ["struct", [["bool"], e, ["uint", 8, "s"]]]
        yield ["union", [e, ["bool"]]]
        yield ["struct", [["varr", e, 2], ["uint", 3, "s"]]]
    a = ["union", [["uint", 8, "s"], ["uint", 16, "s"], ["uint", 48, "s"]]]  # {16, 24, 56}
    b = ["union", [["uint", 8, "s"], ["uint", 16, "s"], ["uint", 40, "s"], ["uint", 48, "s"]]]  # {16, 24, 48, 56}: same min, max, residues mod 32
    for n in (3, 16, 17, 18):
        filler = [["uint", 8, "s"]] * (n - 2)
        yield ["union", filler + [a, b]]
        yield ["union", [b, a] + filler]
        yield ["union", [a] + filler + [b]]


# Distinct dependency types that all go by the name vns.Dep.1.0 (one per read) and are engineered to collide under an approximate
# comparison (equal min, max and residues mod 32, different sets): a process-wide cache of layout intrinsics keyed by the type
# (or its name) would hand one of them the set of another.
U16_56 = ["union", [["uint", 8, "s"], ["uint", 56, "s"]]]  # lengths {16, 64}
ALIAS_DEPS = [
    ["struct", [["varr", ["uint", 16, "s"], 4]]],              # {8,24,40,56,72}
    ["struct", [["varr", U16_56, 1]]],                            # {8,24,72}
    ["struct", [["varr", ["struct", [["uint", 64, "s"]]], 1]]],  # {8,72}
    ["struct", [["varr", ["uint", 32, "s"], 2]]],                 # {8,40,72}
    ["struct", [["varr", ["uint", 8, "s"], 8]]],                  # {8,16,...,72}
    ["struct", [["uint", 8, "s"], ["varr", ["uint", 16, "s"], 3]]],  # {16,32,48,64}
    ["struct", [["uint", 8, "s"], ["varr", ["uint", 48, "s"], 1]]],  # {16,64}
    ["struct", [["uint", 8, "s"], ["varr", ["uint", 24, "s"], 2]]],  # {16,40,64}
    ["union", [["uint", 8, "s"], ["uint", 56, "s"]]],
    ["union", [["uint", 8, "s"], ["uint", 24, "s"], ["uint", 56, "s"]]],  # {16,32,64}
    ["delim", ["struct", [["uint", 8, "s"]]], 32],
    ["delim", ["struct", [["uint", 8, "s"], ["uint", 16, "s"]]], 32],
]
SVC_ALPHA = [["bool"], ["uint", 3, "s"], ["uint", 8, "s"], ["varr", ["bool"], 3], ["varr", ["uint", 8, "s"], 2], ["void", 5]]


def plan(tier):
    shards = [{"kind": "offsets", "part": p, "parts": 48} for p in range(48)]
    shards += [{"kind": "alias-intrinsics"}, {"kind": "colliders"}]
    shards += [{"kind": "service-intrinsics", "part": p, "parts": 16} for p in range(16)]
    shards += [{"kind": "arrays", "part": p, "parts": 4} for p in range(4)]
    shards += [{"kind": "intrinsics", "part": p, "parts": 32} for p in range(32)]
    return shards


def cases(shard, tier):
    if shard["kind"] == "offsets":
        for i, d in enumerate(types_for(tier)):
            if i % shard["parts"] == shard["part"]:
                yield {"kind": "offsets", "desc": d}
    elif shard["kind"] == "arrays":
        elems = [["bool"], ["uint", 3, "s"], ["uint", 8, "s"], ["uint", 17, "t"], ["varr", ["bool"], 3], ["varr", ["uint", 8, "s"], 2]] + c06.REPS1
        i = 0
        for e in elems:
            for n in (1, 2, 3, 4):
                if i % shard["parts"] == shard["part"]:
                    yield {"kind": "array", "desc": ["farr", e, n]}
                i += 1
        for e in (["uint", 8, "s"], ["bool"], ["struct", [["uint", 8, "s"]]], ["varr", ["bool"], 3]):
            for n in (16, 17, 20, 33):
                if i % shard["parts"] == shard["part"]:
                    yield {"kind": "array", "desc": ["farr", e, n], "colliding_bases": True}
                i += 1
    elif shard["kind"] == "colliders":
        # sequences, in ONE process, of composites over element / field types whose length sets differ but agree in min, max and
        # residues mod 32; then the same element arrays asked for their element offsets
        for g in T.COLLIDERS:
            for a, b in itertools.permutations(g, 2):
                yield {"kind": "offsets-seq", "descs": [["struct", [["farr", a, 2], ["bool"]]], ["struct", [["farr", b, 2], ["bool"]]], ["struct", [["bool"], ["varr", a, 2], ["uint", 8, "s"]]], ["struct", [["bool"], ["varr", b, 2], ["uint", 8, "s"]]],
                                                      ["struct", [a, b, ["bool"]]], ["union", [["farr", a, 3], ["farr", b, 3]]]], "arrays": [["farr", a, 3], ["farr", b, 3]]}
    elif shard["kind"] == "alias-intrinsics":
        for a, b in itertools.permutations(range(len(ALIAS_DEPS)), 2):
            yield {"kind": "alias-intrinsics", "pair": [a, b]}
    elif shard["kind"] == "service-intrinsics":
        ss = list(T.structs(SVC_ALPHA, 2))
        i = 0
        for a, b in itertools.product(range(len(ss)), repeat=2):
            if i % shard["parts"] == shard["part"]:
                # where _offset_ is evaluated: at every position, or at exactly one position per section (memoised state of the
                # builder must not leak between positions or across the --- marker)
                yield {"kind": "service-intrinsics", "request": ss[a], "response": ss[b], "where": ["all", "all"]}
                for pa in range(len(ss[a][1]) + 1):
                    for pb in range(len(ss[b][1]) + 1):
                        yield {"kind": "service-intrinsics", "request": ss[a], "response": ss[b], "where": [pa, pb]}
            i += 1
    else:
        for i, d in enumerate(intrinsic_types(tier)):
            if i % shard["parts"] == shard["part"]:
                yield {"kind": "intrinsics", "desc": d}


def check_offsets(case, R):
    desc = case["desc"]
    t = T.build(desc)
    T.spoil_accessors(t)
    one = {"kind": "offsets", "desc": desc}

    class Rx:
        traces_validated = 0

        @staticmethod
        def violation(*a, **k):
            R.violation(*a, **k)

    try:
        starts = observed_starts(desc, t, Rx, one)
        exact = True
    except TooMany:
        starts = None
        exact = False
        R.counters["shape_cap_hit_types"] += 1
    R.counters["traces_validated_against_impl"] += Rx.traces_validated
    keys = field_keys(desc)
    cur = cursor_starts(desc)
    inner0 = desc[1] if desc[0] == "delim" else desc
    evolving = any(contains_delim(f) for f in inner0[1])
    if starts is not None:
        for k, c in zip(keys, cur):
            # A nested delimited object may take any length up to its extent in a future revision, so positions after
            # it are a superset of what the present inner type can produce; otherwise the two formulations must agree.
            bad = (not starts[k] <= set(c)) if evolving else (inner0[0] != "union" and set(c) != starts[k])
            if bad:
                R.violation("reference-formulations-disagree", "harness self-check: cursor formulation vs observed trace positions", one, observed=sorted(starts[k]), expected=sorted(c))
                return
    if evolving:
        starts = None
        exact = False
        R.counters["types_with_nested_delimited"] += 1
    fields = t.fields
    if len(fields) >= 2 and len(fields) <= 4:
        with engine.deadline(60):
            traversal_histories(desc, R, one)
    # the SAME object is walked at every base, including bases that the approximate BitLengthSet equality cannot tell apart
    for base in BASES + (COLLIDING_BASES if len(fields) >= 2 else []):
        with engine.deadline(30):
            got = list(t.iterate_fields_with_offsets(BitLengthSet(base)))
        if [id(f) for f, _o in got] != [id(f) for f in fields] and [str(f) for f, _o in got] != [str(f) for f in fields]:
            R.violation("fields-not-once-in-order", "every field yielded exactly once, in order", {**one, "base": base}, observed=[str(f) for f, _o in got], expected=[str(f) for f in fields])
            continue
        for idx, ((f, off), k, c) in enumerate(zip(got, keys, cur)):
            src = c if (starts is None or (desc[1] if desc[0] == "delim" else desc)[0] == "union") else starts[k]
            exp = {L.pad(b, 8) + s for b in base for s in src}
            R.case([desc, base, idx], nontrivial=(idx >= 1 or len(base) > 1), sample=(idx == 2 and len(base) == 3))
            with engine.deadline(30):
                obs = set(off)
            if obs != exp:
                kind = (desc[1] if desc[0] == "delim" else desc)[0]
                R.violation("offset-set-%s%s" % ("delim-" if desc[0] == "delim" else "", kind), "offset set == set of real start positions relative to the padded base", {**one, "base": base, "field": idx}, observed=sorted(obs), expected=sorted(exp))
                R.outcome("offset-mismatch")
            else:
                R.outcome("offset-match" + ("" if exact else "-cursor-only"))
            if off.min != min(exp) or off.max != max(exp) or sorted(off % 8) != sorted({x % 8 for x in exp}):
                R.violation("offset-analytic", "analytic answers of the offset set", {**one, "base": base, "field": idx}, observed=[off.min, off.max, sorted(off % 8)], expected=[min(exp), max(exp), sorted({x % 8 for x in exp})])


def traversal_histories(desc, R, one):
    """Traversal histories on ONE object: traversals abandoned after k fields, two traversals (different bases) advanced alternately,
    then complete traversals - each must yield what a traversal of a pristine object yields (the iterator must not keep state in
    the type object that an unfinished or concurrent traversal leaves half-built)."""
    def snap(pairs):
        return [[str(f), sorted(o)] for f, o in pairs]

    pristine = {repr(b): snap(T.build(desc).iterate_fields_with_offsets(BitLengthSet(b))) for b in BASES[:3]}
    n = len(pristine[repr(BASES[0])])
    if n < 2:
        return
    for k in range(1, n):
        t = T.build(desc)
        it = iter(t.iterate_fields_with_offsets(BitLengthSet(BASES[0])))
        head = [next(it) for _ in range(k)]
        del it  # abandoned after k fields
        R_ok = snap(head) == pristine[repr(BASES[0])][:k]
        for b in BASES[:3]:
            got = snap(t.iterate_fields_with_offsets(BitLengthSet(b)))
            R.case([desc, "abandoned-traversal", k, b], nontrivial=True, sample=False)
            if got != pristine[repr(b)] or not R_ok:
                R.violation("traversal-after-abandoned-traversal", "every traversal yields every field exactly once with its offsets, also after an earlier traversal of the same object was abandoned", {**one, "abandoned_after": k, "base": b}, observed=got, expected=pristine[repr(b)])
                return
        R.outcome("traversal-history")
    t = T.build(desc)
    a, b = iter(t.iterate_fields_with_offsets(BitLengthSet(BASES[0]))), iter(t.iterate_fields_with_offsets(BitLengthSet(BASES[1])))
    ga, gb = [], []
    for _ in range(n):
        ga.append(next(a))
        gb.append(next(b))
    R.case([desc, "interleaved-traversals"], nontrivial=True, sample=False)
    if snap(ga) != pristine[repr(BASES[0])] or snap(gb) != pristine[repr(BASES[1])]:
        R.violation("interleaved-traversals", "two traversals of one object advanced alternately each yield every field with its offsets", one, observed=[snap(ga), snap(gb)], expected=[pristine[repr(BASES[0])], pristine[repr(BASES[1])]])
    else:
        R.outcome("traversal-history")


def check_array(case, R):
    desc = case["desc"]
    e, n = desc[1], desc[2]
    t = T.build(desc)
    a = L.align(desc)
    # element start positions for base 0 from a validated trace of struct[desc]
    wrapper = ["struct", [desc]]
    tw = T.build(wrapper)
    elem_starts = [set() for _ in range(n)]
    try:
        for v in shapes(wrapper):
            trace: list = []
            want = C.encode(wrapper, v, trace=trace)
            if pydsdl.serialize(tw, v) != want:
                R.violation("trace-not-validated", "reference trace agrees with the real serializer", case, observed="differs")
                return
            R.counters["traces_validated_against_impl"] += 1
            for p, o in trace:
                m = re.fullmatch(r"f0\[(\d+)\]", p)
                if m:
                    elem_starts[int(m.group(1))].add(o)
    except TooMany:
        elem_starts = None
    cur = frozenset([0])
    cursor = []
    for _ in range(n):
        cur = frozenset(L.pad(c, a) for c in cur)
        cursor.append(cur)
        cur = L.advance(cur, e)
    if elem_starts is not None and contains_delim(e):
        ok = all(es <= set(c) for es, c in zip(elem_starts, cursor))  # see check_offsets: evolving nested objects
        if not ok:
            R.violation("reference-formulations-disagree", "harness self-check", case, observed=[sorted(s) for s in elem_starts], expected=[sorted(c) for c in cursor])
            return
    elif elem_starts is not None and [set(c) for c in cursor] != elem_starts:
        R.violation("reference-formulations-disagree", "harness self-check", case, observed=[sorted(s) for s in elem_starts], expected=[sorted(c) for c in cursor])
        return
    for base in BASES + (COLLIDING_BASES if case.get("colliding_bases") else []):
        got = list(t.enumerate_elements_with_offsets(BitLengthSet(base)))
        if [i for i, _o in got] != list(range(n)):
            R.violation("elements-not-once-in-order", "every element yielded exactly once, in order", {**case, "base": base}, observed=[i for i, _o in got], expected=list(range(n)))
            continue
        for (i, off), c in zip(got, cursor):
            exp = {L.pad(b, a) + s for b in base for s in c}
            R.case([desc, base, i], nontrivial=(i >= 1 or len(base) > 1), sample=False)
            R.outcome("element-offset")
            if set(off) != exp:
                R.violation("element-offset-set", "element offset set == real start positions relative to the padded base", {**case, "base": base, "element": i}, observed=sorted(off), expected=sorted(exp))


def parse_set(text: str):
    text = text.strip()
    assert text.startswith("{") and text.endswith("}"), text
    return {int(x) for x in text[1:-1].split(",")}


def check_intrinsics(case, R):
    desc = case["desc"]
    files = {}
    lines = []
    expect = []  # (line number, expected set)
    union = desc[0] == "union"
    if union:
        lines.append("@union")
    cur = frozenset([0])
    for i, f in enumerate(desc[1]):
        if not union:
            lines.append("@print _offset_")
            expect.append((len(lines), set(cur)))
        T.to_files(f, files)
        lines.append(T.type_expr(f) if f[0] == "void" else "%s f%d" % (T.type_expr(f), i))
        if not union:
            cur = L.advance(cur, f)  # advance pads the cursor to the field's alignment first
    if union:
        w = L.tag_width(desc)
        s = set()
        for f in desc[1]:
            s |= set(L.advance(frozenset([w]), f))
        lines.append("@print _offset_")
        expect.append((len(lines), s))
    else:
        lines.append("@print _offset_")
        expect.append((len(lines), set(cur)))
    # intrinsics of dependency types
    deps = [f for f in desc[1] if T.is_composite(f)]
    dep_expect = []
    for f in deps[:2]:
        lines.append("@print %s._bit_length_" % T.type_expr(f))
        dep_expect.append((len(lines), "bls", f))
        lines.append("@print %s._extent_" % T.type_expr(f))
        dep_expect.append((len(lines), "extent", f))
    lines.append("@sealed")
    files["vns/Main.1.0.dsdl"] = "\n".join(lines) + "\n"
    o = api.read_namespace_tree(files, "vns")
    one = {"kind": "intrinsics", "desc": desc}
    if o.error is not None:
        R.violation("intrinsics-definition-rejected", "a definition that prints _offset_ at every position is valid", one, observed={"error": o.error, "text": files["vns/Main.1.0.dsdl"]})
        return
    prints = {ln: txt for path, ln, txt in o.prints if path == "vns/Main.1.0.dsdl"}
    for pos, (ln, exp) in enumerate(expect):
        R.case([desc, "offset", pos], nontrivial=pos >= 1, sample=(pos == 2))
        got = parse_set(prints.get(ln, "{-1}"))
        R.outcome("_offset_")
        if got != exp:
            R.violation("intrinsic-offset" + ("-union" if union else ""), "_offset_ == set of lengths of everything before that point (no padding for the next field)", {**one, "position": pos}, observed=sorted(got), expected=sorted(exp))
    for ln, what, f in dep_expect:
        R.case([desc, what, T.key(f)], nontrivial=True, sample=False)
        R.outcome("_" + what + "_")
        if what == "bls":
            got = parse_set(prints.get(ln, "{-1}"))
            exp = set(L.lengths(f))
            if got != exp:
                R.violation("intrinsic-bit-length", "T._bit_length_ == T.bit_length_set", one, observed=sorted(got), expected=sorted(exp))
        else:
            got = prints.get(ln)
            if got != str(L.extent(f)):
                R.violation("intrinsic-extent", "T._extent_ == T.extent", one, observed=got, expected=str(L.extent(f)))


def dep_files(desc, name="Dep"):
    """files defining `desc` under the fixed name vns.<name>.1.0 (its own dependencies keep their hash-derived names)"""
    files = {}
    inner = desc[1] if desc[0] == "delim" else desc
    lines = ["@union"] if inner[0] == "union" else []
    for i, f in enumerate(inner[1]):
        T.to_files(f, files)
        lines.append(T.type_expr(f) if f[0] == "void" else "%s f%d" % (T.type_expr(f), i))
    lines.append("@extent %d" % desc[2] if desc[0] == "delim" else "@sealed")
    files["vns/%s.1.0.dsdl" % name] = "\n".join(lines) + "\n"
    return files


def check_alias_intrinsics(case, R):
    for step, idx in enumerate(case["pair"]):
        d = ALIAS_DEPS[idx]
        files = dep_files(d)
        files["vns/Main.1.0.dsdl"] = "Dep.1.0 d\n@print Dep.1.0._bit_length_\n@print Dep.1.0._extent_\n@print _offset_\nDep.1.0[<=2] e\n@print _offset_\n@sealed\n"
        o = api.read_namespace_tree(files, "vns")
        one = {**case, "step": step}
        R.case([case["pair"], step], nontrivial=True, sample=(step == 1 and len(R.samples) < 2))
        if o.error is not None:
            R.violation("intrinsics-definition-rejected", "harness: valid definition", one, observed=o.error)
            return
        prints = {ln: txt for path, ln, txt in o.prints if path == "vns/Main.1.0.dsdl"}
        want_bls = set(L.lengths(d))
        cur = L.advance(frozenset([0]), d)
        cur2 = L.advance(cur, ["varr", d, 2])
        R.outcome("_alias_")
        checks = [(2, "bit-length", parse_set(prints.get(2, "{-1}")), want_bls), (3, "extent", prints.get(3), str(L.extent(d))), (4, "offset", parse_set(prints.get(4, "{-1}")), set(cur)), (6, "offset", parse_set(prints.get(6, "{-1}")), set(cur2))]
        for ln, what, got, exp in checks:
            if got != exp:
                R.violation("intrinsic-%s-depends-on-history" % what, "intrinsics of a type equal its own layout whatever other same-named types were read before in the process", one, observed=sorted(got) if isinstance(got, set) else got, expected=sorted(exp) if isinstance(exp, set) else exp)
                return


def check_service_intrinsics(case, R):
    files = {}
    lines = []
    expect = []
    for si, desc in enumerate((case["request"], case["response"])):
        if si == 1:
            lines.append("---")
        cur = frozenset([0])
        where = case.get("where", ["all", "all"])[si]
        for i, f in enumerate(desc[1]):
            if where == "all" or where == i:
                lines.append("@print _offset_")
                expect.append((len(lines), set(cur)))
            lines.append(T.type_expr(f) if f[0] == "void" else "%s f%d" % (T.type_expr(f), i))
            cur = L.advance(cur, f)
        if where == "all" or where == len(desc[1]):
            lines.append("@print _offset_")
            expect.append((len(lines), set(cur)))
        lines.append("@sealed")
    files["vns/Svc.1.0.dsdl"] = "\n".join(lines) + "\n"
    o = api.read_namespace_tree(files, "vns")
    if o.error is not None:
        R.violation("intrinsics-definition-rejected", "harness: valid service definition", case, observed={"error": o.error, "text": files["vns/Svc.1.0.dsdl"]})
        return
    prints = {ln: txt for path, ln, txt in o.prints}
    for pos, (ln, exp) in enumerate(expect):
        R.case([case["request"], case["response"], case.get("where"), pos], nontrivial=pos >= 1, sample=(pos == 3 and len(R.samples) < 2))
        R.outcome("_offset_service")
        got = parse_set(prints.get(ln, "{-1}"))
        if got != exp:
            R.violation("intrinsic-offset-service", "_offset_ in a service section is the set of lengths of everything before that point IN THAT SECTION", {**case, "position": pos}, observed=sorted(got), expected=sorted(exp))
            return


def check_case(case, R):
    if case["kind"] == "alias-intrinsics":
        return check_alias_intrinsics(case, R)
    if case["kind"] == "service-intrinsics":
        return check_service_intrinsics(case, R)
    if case["kind"] == "offsets-seq":
        for d in case["descs"]:
            check_offsets({"kind": "offsets", "desc": d}, R)
        for d in case["arrays"]:
            check_array({"kind": "array", "desc": d}, R)
        return
    if case["kind"] == "offsets":
        check_offsets(case, R)
    elif case["kind"] == "array":
        check_array(case, R)
    else:
        check_intrinsics(case, R)


def worker_init():
    assert L.selfcheck() > 100


def finish(tier, M):
    need = ["offset-match", "element-offset", "_offset_", "_bls_", "_extent_", "_alias_", "_offset_service"]
    miss = [n for n in need if not M.hist.get(n)]
    if miss or not M.counters.get("traces_validated_against_impl"):
        raise engine.Vacuous("not visited: %s" % miss)
    return {"traces_validated_against_impl": M.counters["traces_validated_against_impl"], "bounds": "types as in RULE; shapes capped at %d per type (types above the cap use the cursor formulation only: %d)" % (SHAPE_CAP, M.counters.get("shape_cap_hit_types", 0))}
