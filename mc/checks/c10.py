"""
C10 - Namespace reading is complete, ordered and deterministic.

Stateless exploration under a controlled scheduler: every rglob call and every iteration over a bookkeeping set of the
reader is a choice point (mc.sched); for every configuration the deviation-bounded DFS executes the REAL
read_namespace / read_files under every schedule within the bound and compares each outcome with ref.ns (one composite
per file, none from lookups, order (name, -major, -minor), direct/transitive = requested/closure minus requested) and
with the canonical schedule's outcome.  Argument spellings, directory-set admissibility and a supplementary
cross-process hash-seed pass complete the check.
"""
from __future__ import annotations

import itertools
import json
import os
import subprocess
import sys
from pathlib import Path

import pydsdl

from .. import api, dump, engine, sched, ws
from .. import histories as H
from ..ref import ns as N

ID = "C10"
LEVEL = "model_checking"
DESIGN_REF = "DESIGN.md 4/C10"
RULE = (
    "case = (configuration, operation, schedule): 23 hand-shaped namespace trees (three of them beyond small scope: 13 legacy files, 10 versions with 1..3-digit numbers, 28 definitions) (nesting 0..2, several versions of one name, legacy "
    ".uavcan files, two roots, cross-root references, targets that are also dependencies sorting before / after their referrer, "
    "diamonds, stray non-definition files) x {read_namespace; read_files for every non-empty target subset (<=5 files: all subsets, "
    "else singles, pairs and the full set) in sorted and reversed list order}; schedules: every choice point (rglob result order, "
    "set iteration order) with all n! orders for n<=3 and the reduced move set {identity, reversal, adjacent transpositions, "
    "rotations} for n>=4, deviation bound 1 (quick) / 2 (thorough; 1 for configurations of more than 12 files), unbounded for configurations with <=3 files; argument "
    "spellings (absolute/relative/symlink/str, lookup list orders, duplicates, root in lookups, alias); directory sets "
    "(nested / same-name / case-differing; 1..3 directories for every root, 5 and 7 directories for two roots) x allow_root_namespace_name_collision; 4 configurations under 20 parent directories whose names are special to "
    "globbing / shells / hidden-file conventions (absolute and relative); call histories: every ordered pair (thorough: triple) of 10 operations over two same-named "
    "trees in ONE process, sharing the lookup list object, relative spellings under changing working directories and a re-pointed symlink, each compared with "
    "its outcome as the only call of a fresh interpreter. Non-trivial iff the schedule has a choice "
    "point of arity >= 2; distinct by canonical hash of (configuration, operation, choices). states = distinct (configuration, "
    "operation, choice-point signature, outcome), transitions = choices taken, traces_validated_against_impl = executions"
)
ASSUMPTIONS = [
    "set comprehensions inside the reader cannot be intercepted; the three that exist feed sorted() or only select which of two applicable errors is raised, and are covered by the supplementary (sampled, non-deciding) cross-process PYTHONHASHSEED pass reported as hashseed_runs",
    "two files encoding the same (name, version) in one root are outside this property (see C13)",
    "choice 0 of a set iteration is the set's own order under PYTHONHASHSEED=0; for n>=4 items the move set is reduced (stated, not claimed exhaustive)",
]


def D(dir_, name, ver, refs=(), port=None, legacy=False, text=None, service=False):
    return {"dir": dir_, "name": name, "ver": list(ver), "refs": [[r[0], list(r[1]), r[2] if len(r) > 2 else "abs"] for r in refs], "port": port, "legacy": legacy, "text": text, **({"service": True} if service else {})}


def configs():
    C = {}
    C["single"] = {"root": "ra", "lookups": [], "defs": [D("ra", "ra.A", (1, 0))]}
    C["two-flat"] = {"root": "ra", "lookups": [], "defs": [D("ra", "ra.B", (1, 0)), D("ra", "ra.A", (1, 0))]}
    C["nested"] = {"root": "ra", "lookups": [], "defs": [D("ra", "ra.A", (1, 0)), D("ra", "ra.s.B", (1, 0), [("ra.A", (1, 0))]), D("ra", "ra.s.t.C", (1, 0), [("ra.s.B", (1, 0))]), D("ra", "ra.s.D", (1, 0), [("ra.s.B", (1, 0), "rel")])]}
    C["versions"] = {"root": "ra", "lookups": [], "defs": [D("ra", "ra.A", (0, 1)), D("ra", "ra.A", (0, 2)), D("ra", "ra.A", (1, 0)), D("ra", "ra.A", (2, 0)), D("ra", "ra.B", (0, 1), [("ra.A", (0, 2))])]}
    C["versions-big"] = {"root": "ra", "lookups": [], "defs": [D("ra", "ra.A", (0, 9)), D("ra", "ra.A", (0, 10)), D("ra", "ra.A", (10, 0)), D("ra", "ra.A", (9, 0)), D("ra", "ra.a", (3, 0)), D("ra", "ra.Aa", (1, 0)), D("ra", "ra.A_", (1, 0))]}
    C["legacy"] = {"root": "ra", "lookups": [], "defs": [D("ra", "ra.A", (1, 0), legacy=True), D("ra", "ra.B", (1, 0), [("ra.A", (1, 0))]), D("ra", "ra.s.C", (1, 0), legacy=True)]}
    C["two-roots"] = {"root": "ra", "lookups": ["rb"], "defs": [D("ra", "ra.A", (1, 0), [("rb.X", (1, 0))]), D("ra", "ra.B", (1, 0)), D("rb", "rb.X", (1, 0)), D("rb", "rb.Y", (1, 0))]}
    C["cross-roots"] = {"root": "ra", "lookups": ["rb"], "defs": [D("ra", "ra.A", (1, 0), [("rb.X", (1, 0))]), D("ra", "ra.B", (1, 0)), D("rb", "rb.X", (1, 0), [("ra.B", (1, 0))]), D("rb", "rb.Y", (1, 0), [("rb.X", (1, 0), "rel")])]}
    C["dep-sorts-first"] = {"root": "ra", "lookups": [], "defs": [D("ra", "ra.A", (1, 0)), D("ra", "ra.Z", (1, 0), [("ra.A", (1, 0))])]}
    C["dep-sorts-last"] = {"root": "ra", "lookups": [], "defs": [D("ra", "ra.A", (1, 0), [("ra.Z", (1, 0))]), D("ra", "ra.Z", (1, 0))]}
    C["diamond"] = {"root": "ra", "lookups": [], "defs": [D("ra", "ra.A", (1, 0), [("ra.B", (1, 0)), ("ra.C", (1, 0))]), D("ra", "ra.B", (1, 0), [("ra.D", (1, 0))]), D("ra", "ra.C", (1, 0), [("ra.D", (1, 0))]), D("ra", "ra.D", (1, 0))]}
    C["chain-3-roots"] = {"root": "ra", "lookups": ["rb", "rc"], "defs": [D("ra", "ra.A", (1, 0), [("rb.B", (1, 0))]), D("rb", "rb.B", (1, 0), [("rc.C", (1, 0))]), D("rc", "rc.C", (1, 0)), D("rc", "rc.Unused", (1, 0))]}
    C["lookup-unreferenced-broken"] = {"root": "ra", "lookups": ["rb"], "defs": [D("ra", "ra.A", (1, 0), [("rb.X", (1, 0))]), D("rb", "rb.X", (1, 0)), D("rb", "rb.Broken", (1, 0), text="this is not DSDL $$$\n")]}
    C["stray-files"] = {"root": "ra", "lookups": [], "defs": [D("ra", "ra.A", (1, 0)), D("ra", "ra.s.B", (1, 0))], "extra": {"ra/README.md": "hello", "ra/s/B.1.0.dsdl.bak": "x", "ra/empty/.keep": "", "ra/s/notes.txt": "n"}}
    C["eight-flat"] = {"root": "ra", "lookups": [], "defs": [D("ra", "ra.T%d" % i, (1, 0), [("ra.T%d" % (i + 1), (1, 0))] if i % 3 == 0 and i < 7 else []) for i in range(8)]}
    # ordering by FULL NAME: a lower-case type name / capitalised namespace next to a sub-namespace
    C["sort-namespace-vs-name"] = {"root": "ra", "lookups": [], "defs": [D("ra", "ra.zulu", (1, 0)), D("ra", "ra.mid.Thing", (1, 0)), D("ra", "ra.Upper.Thing", (1, 0)), D("ra", "ra.Zeta", (1, 0)), D("ra", "ra._x", (1, 0)), D("ra", "ra.A_.B", (1, 0)), D("ra", "ra.A", (1, 0))]}
    # one definition refers to TWO versions of the same type (directly, and through another definition): both belong to the closure
    C["two-versions-of-one-dependency"] = {"root": "ra", "lookups": ["rb"], "defs": [D("ra", "ra.A", (1, 0), [("rb.X", (0, 1)), ("rb.X", (0, 2))]), D("rb", "rb.X", (0, 1)), D("rb", "rb.X", (0, 2)), D("rb", "rb.X", (0, 3)), D("ra", "ra.B", (1, 0), [("rb.X", (0, 2))])]}
    C["two-versions-through-chain"] = {"root": "ra", "lookups": [], "defs": [D("ra", "ra.A", (1, 0), [("ra.M", (1, 0)), ("ra.X", (2, 0))]), D("ra", "ra.M", (1, 0), [("ra.X", (1, 0))]), D("ra", "ra.X", (1, 0)), D("ra", "ra.X", (2, 0))]}
    # beyond three of everything: many legacy files, many versions whose numbers have different digit counts, many definitions
    C["many-legacy"] = {"root": "ra", "lookups": [], "defs": [D("ra", "ra.L%02d" % i, (1, 0), legacy=True) for i in range(11)] + [D("ra", "ra.User", (1, 0), [("ra.L09", (1, 0)), ("ra.L10", (1, 0))]), D("ra", "ra.s.M", (1, 0), legacy=True)]}
    C["versions-digit-counts"] = {"root": "ra", "lookups": [], "defs": [D("ra", "ra.A", v) for v in ((0, 120), (0, 42), (0, 5), (100, 0), (99, 1), (9, 255), (10, 0), (2, 0), (0, 100), (0, 99))] + [D("ra", "ra.B", (0, 1), [("ra.A", (0, 120)), ("ra.A", (0, 42))])]}
    C["wide"] = {"root": "ra", "lookups": ["rb"], "defs": [D("ra", "ra.T%02d" % i, (1, 0), ([("ra.T%02d" % (i - 1), (1, 0))] if i % 5 == 4 else []) + ([("rb.X%d" % (i % 3), (1, 0))] if i % 4 == 0 else [])) for i in range(24)] + [D("rb", "rb.X%d" % i, (1, 0)) for i in range(4)]}
    C["same-name-roots"] = {"root": "p/ra", "lookups": ["q/ra"], "defs": [D("p/ra", "ra.A", (1, 0), [("ra.X", (1, 0))]), D("q/ra", "ra.X", (1, 0)), D("q/ra", "ra.Y", (1, 0))]}
    # a nested namespace that repeats the name of the root namespace (legal): the root given BY NAME is the outermost directory of that name
    C["namespace-repeats-root"] = {"root": "ra", "lookups": [], "defs": [D("ra", "ra.A", (1, 0)), D("ra", "ra.v.D", (1, 0)), D("ra", "ra.v.ra.B", (2, 0)), D("ra", "ra.v.ra.B", (1, 1), [("ra.v.D", (1, 0))]), D("ra", "ra.v.ra.c.C", (1, 0), [("ra.v.ra.B", (1, 1)), ("ra.A", (1, 0))])]}
    # service definitions (their request / response types are not serializable as a whole): as targets, next to messages, legacy, nested
    C["services"] = {"root": "ra", "lookups": ["rb"], "defs": [D("ra", "ra.Svc", (1, 0), [("rb.X", (1, 0)), ("ra.B", (1, 0)), ("ra.B", (1, 0))], service=True), D("ra", "ra.B", (1, 0)), D("ra", "ra.s.Inner", (1, 0), service=True, legacy=True),
                                                           D("ra", "ra.Svc", (2, 0), [("rb.X", (1, 0))], service=True), D("rb", "rb.X", (1, 0)), D("rb", "rb.Unused", (1, 0), service=True)]}
    return C


def materialise(cfg) -> Path:
    base = ws.fresh()
    files = N.files_of(cfg)
    files.update(cfg.get("extra", {}))
    ws.write_tree(base, files)
    return base


def obs_types(types, base):
    return [[str(t), api.rel(base, t.source_file_path), engine.h64(dump.composite(t))] for t in types]


def run_rn(base, cfg, root=None, lookups=None, **kw):
    root = base / cfg["root"] if root is None else root
    lookups = [base / x for x in cfg["lookups"]] if lookups is None else lookups
    try:
        res = pydsdl.read_namespace(root, lookups, **kw)
        return {"ok": obs_types(res, base)}
    except pydsdl.InvalidDefinitionError as ex:
        return {"ide": type(ex).__name__}
    except Exception as ex:  # noqa
        return {"other": type(ex).__name__, "text": str(ex)[:200]}


def run_rf(base, cfg, targets, roots=None, lookups=None):
    roots = [base / d for d in sorted({t["dir"] for t in targets})] if roots is None else roots
    lookups = [base / x for x in ([cfg["root"]] + cfg["lookups"])] if lookups is None else lookups
    try:
        d, t = pydsdl.read_files([base / N.file_of(x) for x in targets], roots, lookups)
        return {"ok": [obs_types(d, base), obs_types(t, base)]}
    except pydsdl.InvalidDefinitionError as ex:
        return {"ide": type(ex).__name__}
    except Exception as ex:  # noqa
        return {"other": type(ex).__name__, "text": str(ex)[:200]}


def expected_rn(cfg):
    try:
        return {"ok": N.expected_read_namespace(cfg, cfg["root"], cfg["lookups"])}
    except N.Invalid:
        return {"ide": True}


def expected_rf(cfg, targets):
    try:
        d, t = N.expected_read_files(cfg, targets, [cfg["root"]] + cfg["lookups"])
        return {"ok": [d, t]}
    except N.Invalid:
        return {"ide": True}


def target_sets(cfg, tier):
    defs = [d for d in cfg["defs"] if d.get("text") is None]
    n = len(defs)
    if n <= 5:
        subsets = [list(c) for k in range(1, n + 1) for c in itertools.combinations(range(n), k)]
    elif n > 9:
        # large configurations: every third single target, a few pairs, the full set
        subsets = [[i] for i in range(0, n, 3)] + [[0, n - 1], [n - 1, 0], [n // 2, 1]] + [list(range(n))]
    else:
        subsets = [[i] for i in range(n)] + [list(c) for c in itertools.combinations(range(n), 2)] + [list(range(n))]
    for s in subsets:
        yield s, False
        if len(s) > 1:
            yield s, True


def plan(tier):
    shards = []
    for name, cfg in configs().items():
        shards.append({"kind": "rn", "config": name})
        ts = list(target_sets(cfg, tier))
        parts = max(1, min(8, len(ts) // 6))
        for p in range(parts):
            shards.append({"kind": "rf", "config": name, "part": p, "parts": parts})
        shards.append({"kind": "spellings", "config": name})
    shards.append({"kind": "dirsets"})
    shards.append({"kind": "hashseed"})
    for i in range(len(ODD_PARENTS)):
        shards.append({"kind": "odd-parents", "index": i})
    for i in range(len(HISTORY_OPS)):
        shards.append({"kind": "histories", "first": i})
    shards += H.plan_shards(['nested-revisions', 'minor-versions', 'shared-arguments', 'wide-revisions', 'legacy-repeats'])
    return shards


def cases(shard, tier):
    if shard.get("kind") == "call-histories":
        yield from H.cases_of(shard)
        return
    k = shard["kind"]
    if k == "rn":
        yield {"kind": "rn", "config": shard["config"], "tier": tier}
    elif k == "rf":
        cfg = configs()[shard["config"]]
        for i, (s, rev) in enumerate(target_sets(cfg, tier)):
            if i % shard["parts"] == shard["part"]:
                yield {"kind": "rf", "config": shard["config"], "targets": s, "reversed": rev, "tier": tier}
    elif k == "spellings":
        yield {"kind": "spellings", "config": shard["config"]}
    elif k == "dirsets":
        yield {"kind": "dirsets"}
    elif k == "odd-parents":
        for cname in ("nested", "two-roots", "legacy", "same-name-roots"):
            yield {"kind": "odd-parents", "config": cname, "parent": ODD_PARENTS[shard["index"]]}
    elif k == "histories":
        for j in range(len(HISTORY_OPS)):
            for share in ("list", "fresh"):
                yield {"kind": "histories", "ops": [shard["first"], j], "share": share}
        if tier != "quick":
            for j, l in itertools.product(range(len(HISTORY_OPS)), repeat=2):
                yield {"kind": "histories", "ops": [shard["first"], j, l], "share": "list"}
    else:
        yield {"kind": "hashseed"}


def names_of(o):
    return [x[0] for x in o]


def explore_case(case, R, fn, expected, label):
    cfg_name = case["config"]
    cfg = configs()[cfg_name]
    tier = case.get("tier", "quick")
    nfiles = len(cfg["defs"])
    # deviation bound: unbounded for <= 3 files, 1 (quick) / 2 (thorough); configurations of more than 12 files keep bound 1 in both
    # tiers (bound 2 over choice points of arity 28 exceeded the per-case budget: a cap of the harness, stated, not an alarm)
    bound = None if nfiles <= 3 else (1 if tier == "quick" or nfiles > 12 else 2)
    if "schedule" in case:
        obs, sch = sched.run_with(case["schedule"], fn)
        executions = [(obs, sch)]
    else:
        executions = []
        try:
            n, npoints, capped = sched.explore(fn, bound, lambda o, s: executions.append((o, s)), max_executions=20000 if tier == "quick" else 200000)
        except sched.CanonicalNotReproducible as ex:
            R.outcome("not-reproducible")
            R.violation("result-depends-on-earlier-calls:repeated-" + label, "the same call repeated in one process under the same enumeration order takes the same course and gives the same result", case, observed=str(ex)[:600])
            return None
        if capped:
            R.notes.add("execution cap hit for %s %s" % (cfg_name, label))
    canonical = executions[0][0]
    for obs, sch in executions:
        one = {**case, "schedule": sch.choices}
        nontriv = any(a >= 2 for _s, a, _c in sch.trace)
        R.case([cfg_name, label, sch.choices], nontrivial=nontriv, sample=(sum(1 for c in sch.choices if c) == 1 and len(sch.choices) >= 4 and len(R.samples) < 3))
        R.state([cfg_name, label, sch.signature, obs])
        R.transitions += len(sch.trace)
        R.traces += 1
        R.counters["max_choice_points"] = max(R.counters["max_choice_points"], len(sch.trace))
        if "other" in obs:
            R.outcome("foreign-exception")
            R.violation("foreign-exception:" + obs["other"], "reading yields a result or InvalidDefinitionError", one, observed=obs)
            continue
        if "ide" in expected:
            if "ide" not in obs:
                R.violation("invalid-configuration-accepted", "harness: the reference rejects this configuration", one, observed=obs)
            R.outcome("rejected")
            continue
        if "ide" in obs:
            R.outcome("spurious-reject")
            R.violation("valid-namespace-rejected:" + obs["ide"], "a valid namespace is read", one, observed=obs, expected=expected)
            continue
        got = obs["ok"]
        if label == "rn":
            if names_of(got) != expected["ok"]:
                R.outcome("result-wrong")
                miss = sorted(set(expected["ok"]) - set(names_of(got)))
                extra = sorted(set(names_of(got)) - set(expected["ok"]))
                dup = len(names_of(got)) != len(set(names_of(got)))
                fp = "missing" if miss else ("from-elsewhere" if extra else ("duplicated" if dup else "order"))
                R.violation("read_namespace-" + fp, "exactly one composite per definition file under the root, sorted by (name, -major, -minor)", one, observed=names_of(got), expected=expected["ok"])
                continue
        else:
            gd, gt = got
            if [names_of(gd), names_of(gt)] != expected["ok"]:
                R.outcome("result-wrong")
                fp = "direct" if names_of(gd) != expected["ok"][0] else "transitive"
                if sorted(names_of(gd)) == sorted(expected["ok"][0]) and sorted(names_of(gt)) == sorted(expected["ok"][1]):
                    fp += "-order"
                R.violation("read_files-" + fp, "direct = requested files, transitive = rest of the closure, disjoint, each sorted", one, observed=[names_of(gd), names_of(gt)], expected=expected["ok"])
                continue
        if obs != canonical:
            R.outcome("schedule-dependent")
            R.violation("result-depends-on-schedule:" + label, "the result does not depend on enumeration / set iteration order", one, observed=obs, expected=canonical)
            continue
        R.outcome("ok-" + label)
    return canonical


def check_rn(case, R):
    cfg = configs()[case["config"]]
    base = materialise(cfg)
    try:
        explore_case(case, R, lambda: run_rn(base, cfg), expected_rn(cfg), "rn")
    finally:
        ws.remove(base)


def check_rf(case, R):
    cfg = configs()[case["config"]]
    base = materialise(cfg)
    try:
        defs = [d for d in cfg["defs"] if d.get("text") is None]
        targets = [defs[i] for i in case["targets"]]
        if case.get("reversed"):
            targets = list(reversed(targets))
        canonical = explore_case(case, R, lambda: run_rf(base, cfg, targets), expected_rf(cfg, targets), "rf")
        # types equal to what read_namespace yields for the same files (differential, canonical schedule)
        if canonical is not None and "ok" in canonical:
            by_file = {}
            for rootdir in sorted({d["dir"] for d in cfg["defs"]}):
                lk = sorted({d["dir"] for d in cfg["defs"]} - {rootdir})
                o = run_rn(base, cfg, root=base / rootdir, lookups=[base / x for x in lk])
                if "ok" in o:
                    for n, p, h in o["ok"]:
                        by_file[p] = h
            for n, p, h in canonical["ok"][0] + canonical["ok"][1]:
                R.counters["type_equality_checks"] += 1
                if p in by_file and by_file[p] != h:
                    R.violation("read_files-type-differs-from-read_namespace", "types equal those read_namespace yields for the same files", case, observed=[n, p])
            # ... and the OBJECTS compare equal (==, hash, set membership) with those of read_namespace, both ways
            objs = {}
            for rootdir in sorted({d["dir"] for d in cfg["defs"]}):
                lk = sorted({d["dir"] for d in cfg["defs"]} - {rootdir})
                try:
                    for t in pydsdl.read_namespace(base / rootdir, [base / x for x in lk]):
                        objs[api.rel(base, t.source_file_path)] = t
                except pydsdl.InvalidDefinitionError:
                    pass
            d_, t_ = pydsdl.read_files([base / N.file_of(x) for x in targets], [base / d for d in sorted({t["dir"] for t in targets})], [base / x for x in ([cfg["root"]] + cfg["lookups"])])
            for t in list(d_) + list(t_):
                other = objs.get(api.rel(base, t.source_file_path))
                if other is None:
                    continue
                R.counters["object_equality_checks"] += 1
                if not (t == other and other == t and hash(t) == hash(other) and t in {other} and not (t != other)):
                    R.violation("read_files-object-not-equal-to-read_namespace-object", "read_files returns the very types read_namespace yields for these files (==, hash, set membership)", case, observed=[str(t), type(t).__name__])
                    break
    finally:
        ws.remove(base)


def check_spellings(case, R):
    cfg = configs()[case["config"]]
    base = materialise(cfg)
    old = os.getcwd()
    try:
        ref = run_rn(base, cfg)
        exp = expected_rn(cfg)
        if ("ok" in ref and names_of(ref["ok"]) != exp.get("ok")) or ("ide" in ref) != ("ide" in exp):
            R.violation("read_namespace-canonical", "canonical call equals the reference", case, observed=ref, expected=exp)
            return
        root = base / cfg["root"]
        lks = [base / x for x in cfg["lookups"]]
        (base / "links").mkdir()
        os.symlink(root, base / "links" / Path(cfg["root"]).name)
        for i, l in enumerate(lks):
            (base / "links" / ("l%d" % i)).mkdir()
            os.symlink(l, base / "links" / ("l%d" % i) / l.name)
        os.chdir(base)
        variants = []
        for rname, r in (("abs", root), ("str", str(root)), ("rel", Path(cfg["root"])), ("relstr", cfg["root"]), ("symlink", base / "links" / Path(cfg["root"]).name), ("dotdot", base / "links" / ".." / cfg["root"])):
            lk_variants = [("as-is", lks)]
            if lks:
                lk_variants += [("reversed", list(reversed(lks))), ("dup", lks + lks), ("with-root", lks + [root]), ("root-first", [root] + lks), ("str", [str(x) for x in lks]), ("rel", [Path(x) for x in cfg["lookups"]]),
                                ("alias", [base / "links" / ("l%d" % i) / l.name for i, l in enumerate(lks)]), ("alias+real", lks + [base / "links" / "l0" / lks[0].name]), ("single" if len(lks) == 1 else "tuple", lks[0] if len(lks) == 1 else tuple(lks))]
            else:
                lk_variants += [("none", None), ("root-only", [root]), ("root-twice", [root, str(root)]), ("empty-tuple", ())]
            if lks and rname in ("abs", "rel"):
                # one-shot iterables are legal values of an Iterable parameter
                lk_variants += [("generator", "GEN"), ("iterator", "ITER"), ("map-str", "MAP"), ("set", set(lks)), ("dict-keys", {x: 1 for x in lks}.keys())]
            for lname, l in lk_variants:
                variants.append((rname, lname, r, l))
        for rname, lname, r, l in variants:
            R.case([case["config"], "spelling", rname, lname], nontrivial=True, sample=(rname == "symlink" and lname == "alias"))
            R.state([case["config"], "spelling", rname, lname])
            R.transitions += 1
            R.traces += 1
            if isinstance(l, str) and l in ("GEN", "ITER", "MAP"):
                l = {"GEN": (x for x in lks), "ITER": iter(list(lks)), "MAP": map(str, lks)}[l]
            try:
                res = pydsdl.read_namespace(r, l)
                o = {"ok": obs_types(res, base)}
            except pydsdl.InvalidDefinitionError as ex:
                o = {"ide": type(ex).__name__}
            except Exception as ex:  # noqa
                o = {"other": type(ex).__name__, "text": str(ex)[:200]}
            if o != ref:
                R.outcome("spelling-dependent")
                R.violation("result-depends-on-argument-spelling:%s:%s" % (rname, lname), "the result does not depend on the order, duplication or spelling of the directory arguments", {**case, "root": rname, "lookups": lname}, observed=o, expected=ref)
            else:
                R.outcome("ok-spelling")
        # read_files: the other root namespaces designated through root_namespace_directories_or_names (no lookup_directories),
        # spelled as absolute paths, relative paths, bare names, one-shot iterables; targets given as list / iterator
        targets = [d for d in cfg["defs"] if d["dir"] == cfg["root"] and d.get("text") is None]
        all_dirs = [cfg["root"]] + cfg["lookups"]
        if targets and "/" not in "".join(all_dirs):
            tfiles = [base / N.file_of(t) for t in targets]
            ref_rf = run_rf(base, cfg, targets, roots=[base / d for d in all_dirs], lookups=[])
            rf_variants = [
                ("abs", lambda: (tfiles, [base / d for d in all_dirs], None)),
                ("rel", lambda: ([Path(N.file_of(t)) for t in targets], [Path(d) for d in all_dirs], None)),
                ("names", lambda: (tfiles, [Path(d).name for d in all_dirs], None)),
                ("names-rel-targets", lambda: ([N.file_of(t) for t in targets], [Path(d).name for d in all_dirs], None)),
                ("reversed-roots", lambda: (tfiles, [base / d for d in reversed(all_dirs)], None)),
                ("root-abs-others-as-lookups", lambda: (tfiles, [base / cfg["root"]], [base / d for d in cfg["lookups"]])),
                ("root-name-others-as-lookup-names", lambda: (tfiles, [cfg["root"]], [Path(d) for d in cfg["lookups"]])),
                ("iterators", lambda: (iter(list(tfiles)), (base / d for d in all_dirs), None)),
                ("map-str", lambda: (map(str, tfiles), map(str, [base / d for d in all_dirs]), iter([]))),
                ("tuple-set", lambda: (tuple(tfiles), set(base / d for d in all_dirs), ())),
            ]
            for vname, mk in rf_variants:
                tg, roots, lk = mk()
                R.case([case["config"], "rf-spelling", vname], nontrivial=True, sample=False)
                R.state([case["config"], "rf-spelling", vname])
                R.transitions += 1
                R.traces += 1
                try:
                    d_, t_ = pydsdl.read_files(tg, roots, lk)
                    o = {"ok": [obs_types(d_, base), obs_types(t_, base)]}
                except pydsdl.InvalidDefinitionError as ex:
                    o = {"ide": type(ex).__name__}
                except Exception as ex:  # noqa
                    o = {"other": type(ex).__name__, "text": str(ex)[:200]}
                if o != ref_rf:
                    R.outcome("spelling-dependent")
                    R.violation("read_files-depends-on-argument-spelling:" + vname, "the result does not depend on the order, duplication or spelling of the directory arguments", {**case, "read_files": vname}, observed=o if "ok" not in o else [names_of(o["ok"][0]), names_of(o["ok"][1])], expected=ref_rf if "ok" not in ref_rf else [names_of(ref_rf["ok"][0]), names_of(ref_rf["ok"][1])])
                else:
                    R.outcome("ok-rf-spelling")
    finally:
        os.chdir(old)
        ws.remove(base)


DIRSET_DIRS = ["a/ra", "a/rb", "a/ra/sub", "b/ra", "b/RA", "b/rb/deep/rc", "a/rb/x", "a/ra/sub/deep", "a/rb/x/y/z", "b/rb"]  # nesting distances 1, 2, 3


def check_dirsets(case, R):
    base = ws.fresh()
    try:
        for d in DIRSET_DIRS:
            (base / d).mkdir(parents=True, exist_ok=True)
            name = d.split("/")[-1]
        ws.write_tree(base, {"a/ra/A.1.0.dsdl": "@sealed\n", "a/rb/B.1.0.dsdl": "@sealed\n", "b/ra/C.1.0.dsdl": "@sealed\n", "b/RA/D.1.0.dsdl": "@sealed\n", "b/rb/deep/rc/E.1.0.dsdl": "@sealed\n", "a/ra/sub/F.1.0.dsdl": "@sealed\n", "a/rb/x/G.1.0.dsdl": "@sealed\n", "a/ra/sub/deep/H.1.0.dsdl": "@sealed\n", "a/rb/x/y/z/I.1.0.dsdl": "@sealed\n", "b/rb/J.1.0.dsdl": "@sealed\n"})
        for root in DIRSET_DIRS[:4] + DIRSET_DIRS[7:9]:
            others = [d for d in DIRSET_DIRS if d != root]
            for k in (0, 1, 2, 4, 6):
                for lk in itertools.combinations(others, k):
                    if k >= 4 and root not in DIRSET_DIRS[:2]:
                        continue  # large directory sets: two roots only
                    for allow in (True, False):
                        dirs = [root] + list(lk)
                        nested = any(a != b and (b + "/").startswith(a + "/") for a in dirs for b in dirs)
                        collide = any(a != b and a.split("/")[-1].lower() == b.split("/")[-1].lower() for a in dirs for b in dirs)
                        expect_reject = nested or (collide and not allow)
                        one = {"kind": "dirsets", "root": root, "lookups": list(lk), "allow": allow}
                        R.case(one, nontrivial=True, sample=(k == 2 and nested and len(R.samples) < 2))
                        R.state(one)
                        R.transitions += 1
                        R.traces += 1
                        try:
                            pydsdl.read_namespace(base / root, [base / x for x in lk], allow_root_namespace_name_collision=allow)
                            rejected, cls = False, None
                        except pydsdl.InvalidDefinitionError as ex:
                            rejected, cls = True, type(ex).__name__
                        except Exception as ex:  # noqa
                            R.violation("foreign-exception:" + type(ex).__name__, "directory sets are accepted or rejected with InvalidDefinitionError", one, observed=repr(ex)[:200])
                            continue
                        if rejected != expect_reject:
                            R.outcome("dirset-wrong")
                            R.violation("directory-set-%s" % ("accepted" if expect_reject else "rejected:%s" % cls), "rejected exactly when one directory lies inside another or (collisions disallowed) two distinct ones share a name ignoring case", one, observed={"rejected": rejected, "cls": cls}, expected={"rejected": expect_reject, "nested": nested, "collide": collide})
                        else:
                            R.outcome("dirset-" + ("rejected" if rejected else "accepted"))
    finally:
        ws.remove(base)


# ---------------------------------------------------------------------------------------------------------------
# Directory names ABOVE the root that are special to globbing, shells, URL quoting or hidden-file conventions: the namespace
# directory itself must have a valid name, but it may live anywhere.
ODD_PARENTS = ["build[1]", "a*b", "q?x", ".hidden", "sp ace", "ünï", "{x,y}", "~t", "$HOME", "%41", "[", "a]b[", "!x", "x;y", "x'y", "-x", "**", "x.dsdl", "CON", "a\\b"]


def check_odd_parents(case, R):
    cfg = configs()[case["config"]]
    base = ws.fresh()
    old = os.getcwd()
    try:
        try:
            sub = base / case["parent"] / "in"
            sub.mkdir(parents=True)
        except OSError:
            R.counters["unwritable_names"] += 1
            return
        files = N.files_of(cfg)
        ws.write_tree(sub, files)
        exp = expected_rn(cfg)
        defs = [d for d in cfg["defs"] if d.get("text") is None]
        exp_rf = expected_rf(cfg, defs)
        for spelling in ("abs", "rel"):
            os.chdir(sub if spelling == "rel" else old)
            mk = (lambda x: Path(x)) if spelling == "rel" else (lambda x: sub / x)
            one = {**case, "spelling": spelling}
            R.case(one, nontrivial=True, sample=(case["parent"] == "build[1]" and spelling == "abs"))
            R.state(one)
            R.transitions += 2
            R.traces += 2
            o = run_rn(sub, cfg, root=mk(cfg["root"]), lookups=[mk(x) for x in cfg["lookups"]])
            if "ok" not in o or names_of(o["ok"]) != exp["ok"] or [x[1] for x in o["ok"]] != [N.file_of(d) for d in sorted([d for d in cfg["defs"] if d["dir"] == cfg["root"]], key=N.key)]:
                R.outcome("odd-parent-wrong")
                R.violation("read_namespace-under-odd-parent", "exactly one composite per definition file under the root, wherever the root directory lives", one, observed=o if "ok" not in o else names_of(o["ok"]), expected=exp)
                continue
            try:
                d_, t_ = pydsdl.read_files([mk(N.file_of(x)) for x in defs], [mk(x) for x in sorted({t["dir"] for t in defs})], [])
                orf = [names_of(obs_types(d_, sub)), names_of(obs_types(t_, sub))]
            except Exception as ex:  # noqa
                orf = {"raised": type(ex).__name__, "text": str(ex)[:200]}
            if orf != exp_rf["ok"]:
                R.outcome("odd-parent-wrong")
                R.violation("read_files-under-odd-parent", "direct = requested files, transitive = rest of the closure, wherever the root directory lives", one, observed=orf, expected=exp_rf)
                continue
            R.outcome("ok-odd-parent")
    finally:
        os.chdir(old)
        ws.remove(base)


# Call histories: several API calls in ONE process that share argument objects (the same list of lookup directories), the same
# relative spellings under different working directories, and a symbolic link that is re-pointed between calls.  Every call must
# give what it gives when it is the only call of a fresh process (its "isolated" outcome, computed first on fresh objects).
HISTORY_TREE = {
    "p/ra/A.1.0.dsdl": "uint8 a\n@sealed\n", "p/ra/X.1.0.dsdl": "uint16 x\n@sealed\n", "p/rb/B.1.0.dsdl": "ra.A.1.0 a\n@sealed\n",
    "q/ra/A.1.0.dsdl": "uint32 a\n@sealed\n", "q/ra/Y.1.0.dsdl": "ra.X.1.0 x\n@sealed\n", "q/rb/B.1.0.dsdl": "ra.A.1.0 a\nuint8 q\n@sealed\n", "q/rc/C.1.0.dsdl": "rb.B.1.0 b\n@sealed\n",
}
HISTORY_OPS = [
    ("rn", "p", "ra", ["rb"]), ("rn", "q", "ra", ["rb"]), ("rn", "p", "rb", ["ra"]), ("rn", "q", "rb", ["ra"]), ("rn", "q", "rc", ["rb", "ra"]),
    ("rf", "p", "rb/B.1.0.dsdl", ["rb", "ra"]), ("rf", "q", "rb/B.1.0.dsdl", ["rb", "ra"]), ("rf", "q", "rc/C.1.0.dsdl", ["rc", "rb", "ra"]),
    ("rn-link", "p", "ra", ["rb"]), ("rn-link", "q", "ra", ["rb"]),
]


def _history_call(base, op, shared: dict | None):
    kind, side, what, dirs = op
    os.chdir(base / side)
    if kind == "rn-link":
        link = base / "current"
        if link.is_symlink():
            link.unlink()
        os.symlink(base / side, link)
        os.chdir(base)
        root, lookups = Path("current") / what, [Path("current") / d for d in dirs]
    elif kind == "rn":
        root, lookups = Path(what), [Path(d) for d in dirs]
    else:
        root, lookups = None, [Path(d) for d in dirs]
    if shared is not None:
        # the SAME list object is handed to every call of the history that designates the same directories (as the caller wrote
        # them down); it is never re-initialised in between, exactly like an application that keeps one list of lookup directories
        lookups = shared.setdefault(tuple(str(x) for x in lookups), lookups)
    try:
        if kind == "rf":
            d_, t_ = pydsdl.read_files([Path(what)], lookups, [])
            res = list(d_) + list(t_)
        else:
            res = pydsdl.read_namespace(root, lookups)
        return {"ok": [[str(t), api.rel(base, t.source_file_path), engine.h64(dump.composite(t))] for t in res]}
    except pydsdl.InvalidDefinitionError as ex:
        return {"ide": type(ex).__name__}
    except Exception as ex:  # noqa
        return {"other": type(ex).__name__, "text": str(ex)[:200]}


def history_isolated_probe() -> str:
    """Fresh interpreter: the outcome of every operation when it is the first and only call (paths relative to the scratch base)."""
    engine.bind_repo()
    ws.init_worker()
    out = []
    old = os.getcwd()
    for op in HISTORY_OPS:
        base = ws.fresh()
        try:
            ws.write_tree(base, HISTORY_TREE)
            out.append(_history_call(base, op, None))
        finally:
            os.chdir(old)
            ws.remove(base)
    ws.cleanup_all()
    return json.dumps(out, sort_keys=True)


_ISOLATED: list = []


def isolated_outcomes():
    if not _ISOLATED:
        outs = []
        for op in HISTORY_OPS:  # one fresh interpreter per operation: nothing can have been cached by an earlier call
            env = dict(os.environ, PYTHONPATH=str(engine.VERIF))
            code = "from mc import engine; engine.bind_repo(); from mc.checks import c10; c10.HISTORY_OPS[:] = [c10.HISTORY_OPS[%d]]; print(c10.history_isolated_probe())" % HISTORY_OPS.index(op)
            p = subprocess.run([sys.executable, "-c", code], env=env, capture_output=True, text=True, cwd=str(engine.VERIF), timeout=300)
            if p.returncode != 0:
                raise RuntimeError("isolated probe failed: " + p.stderr[-500:])
            outs.append(json.loads(p.stdout.strip().splitlines()[-1])[0])
        _ISOLATED.extend(outs)
    return _ISOLATED


def check_histories(case, R):
    iso = isolated_outcomes()
    base = ws.fresh()
    old = os.getcwd()
    try:
        ws.write_tree(base, HISTORY_TREE)
        shared = {} if case["share"] == "list" else None
        done = []
        for i in case["ops"]:
            o = _history_call(base, HISTORY_OPS[i], shared)
            done.append(i)
            R.state([done, case["share"]])
            R.transitions += 1
            if "other" in o:
                R.violation("foreign-exception:" + o["other"], "reading yields a result or InvalidDefinitionError", case, observed=o)
                break
            if o != iso[i]:
                R.outcome("history-dependent")
                R.violation("result-depends-on-earlier-calls:%s" % HISTORY_OPS[i][0], "a call gives what it gives as the only call of a fresh process: no dependence on earlier calls, on argument objects reused between calls, on the working directory or link targets of earlier calls", {**case, "ops": done}, observed=o if "ok" not in o else [x[:2] for x in o["ok"]], expected=iso[i] if "ok" not in iso[i] else [x[:2] for x in iso[i]["ok"]])
                break
        else:
            R.outcome("ok-history")
        R.traces += 1
        R.case(case, nontrivial=len(set(case["ops"])) > 1, sample=(case["ops"] == [0, 1] and case["share"] == "list"))
    finally:
        os.chdir(old)
        ws.remove(base)


def hashseed_probe() -> str:
    """Executed in a fresh interpreter under a given PYTHONHASHSEED (no scheduler): digest of all canonical outcomes."""
    engine.bind_repo()
    ws.init_worker()
    out = {}
    for name, cfg in configs().items():
        base = materialise(cfg)
        try:
            out[name] = {"rn": run_rn(base, cfg)}
            defs = [d for d in cfg["defs"] if d.get("text") is None]
            out[name]["rf"] = run_rf(base, cfg, list(reversed(defs)))
        finally:
            ws.remove(base)
    # a directory set that is both nested and colliding: which error is raised must not depend on the hash seed either
    base = ws.fresh()
    try:
        ws.write_tree(base, {"a/ra/A.1.0.dsdl": "@sealed\n", "a/ra/sub/F.1.0.dsdl": "@sealed\n", "b/ra/C.1.0.dsdl": "@sealed\n"})
        try:
            pydsdl.read_namespace(base / "a/ra", [base / "a/ra/sub", base / "b/ra"], allow_root_namespace_name_collision=False)
            out["dirset"] = "accepted"
        except pydsdl.InvalidDefinitionError:
            # both a nested and a same-name pair are present: WHICH of the two applicable errors is raised follows the
            # iteration order of a set comprehension (hash seed); the property only requires the rejection itself
            out["dirset"] = "rejected"
    finally:
        ws.remove(base)
    ws.cleanup_all()
    return json.dumps(out, sort_keys=True)


def check_hashseed(case, R):
    seed0 = int(os.environ.get("VERIF_SEED", "0") or 0)
    seeds = [0] + [(seed0 * 7919 + 104729 * i + 1) % 4294967295 for i in range(1, 8)]
    outs = {}
    for s in seeds:
        env = dict(os.environ, PYTHONHASHSEED=str(s), PYTHONPATH=str(engine.VERIF))
        p = subprocess.run([sys.executable, "-c", "from mc import engine; engine.bind_repo(); from mc.checks import c10; print(c10.hashseed_probe())"], env=env, capture_output=True, text=True, cwd=str(engine.VERIF), timeout=300)
        if p.returncode != 0:
            raise RuntimeError("hash seed probe failed: " + p.stderr[-500:])
        outs[s] = p.stdout.strip().splitlines()[-1]
        R.counters["hashseed_runs"] += 1
    ref = json.loads(outs[seeds[0]])
    for s in seeds[1:]:
        o = json.loads(outs[s])
        for k in ref:
            # workspace directory names differ between processes: compare names and relative paths only
            if o[k] != ref[k]:
                R.violation("result-depends-on-hash-seed:" + k, "the result does not depend on the hash seed", {"kind": "hashseed", "seed": s, "config": k}, observed=o[k], expected=ref[k])
    R.case(["hashseed", seeds], nontrivial=True, sample=False)
    R.state(["hashseed"])
    R.transitions += len(seeds)
    R.outcome("hashseed-pass")


def check_case(case, R):
    if case.get("kind") == "call-history":
        return H.check_history(case["label"], R, H.project_full, 'result-depends-on-earlier-calls', 'the result is a function of the directories read in THIS call')
    k = case["kind"]
    if k == "rn":
        check_rn(case, R)
    elif k == "rf":
        check_rf(case, R)
    elif k == "spellings":
        check_spellings(case, R)
    elif k == "dirsets":
        check_dirsets(case, R)
    elif k == "odd-parents":
        check_odd_parents(case, R)
    elif k == "histories":
        check_histories(case, R)
    else:
        check_hashseed(case, R)


def finish(tier, M):
    need = ["ok-rn", "ok-rf", "ok-spelling", "dirset-rejected", "dirset-accepted", "hashseed-pass", "ok-odd-parent", "ok-history"]
    miss = [n for n in need if not M.hist.get(n)]
    if miss or M.counters.get("max_choice_points", 0) < 2:
        raise engine.Vacuous("not seen: %s (max choice points %s)" % (miss, M.counters.get("max_choice_points")))
    return {"configurations": sorted(configs()), "deviation_bound": "unbounded for <=3 files, else %d" % (1 if tier == "quick" else 2), "hashseed_runs": M.counters.get("hashseed_runs", 0), "max_choice_points_in_one_execution": M.counters.get("max_choice_points")}
