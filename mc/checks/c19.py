"""
C19 - Definitions outside the dependency closure cannot influence the result.

Differential exploration: for every configuration, operation and definition file outside the closure of the targets,
the file's text is replaced by every entry of a replacement catalogue; the outcome (deep dump of the result, or the
exception class / path / line) must be identical to the run with the original text, the file must never be opened and
the print handler must never fire for it.
"""
from __future__ import annotations

import builtins
import itertools

import pydsdl

from .. import api, dump, engine, ws
from .. import histories as H
from ..ref import ns as N
from . import c09, c10

ID = "C19"
LEVEL = "exploration"
DESIGN_REF = "DESIGN.md 4/C19"
RULE = (
    "case = (configuration, operation, outside file, replacement): the 16 trees of C10 plus 10 trees with sibling versions, port-IDs "
    "shared between a target and unrelated definitions, same-identity twins in another directory / file, dangling references next to other versions of the missing name, references that match a definition only "
    "up to letter case, deprecated dependencies with newer unreferenced versions, and every acyclic 3-node graph of two C09 assignments; operations read_namespace and read_files for "
    "every single target and the full target set; every definition file that ref.ns places outside the closure (lookup roots; for "
    "read_files also the targets' own roots) x 44 replacement texts (two of them not decodable as UTF-8) (token garbage, one per static-rule class, failing assert, @print, "
    "another kind / sealing / extent than its sibling versions, references to missing or cyclic types, huge / empty / binary text). "
    "History part: every (configuration, operation, definition inside the closure broken by garbage / by a failing assert placed after its references) "
    "followed in the same process by each of 5 unrelated valid calls, whose outcome must equal the reference closure and the same call made before. "
    "Non-trivial iff the replacement differs from the original text; distinct by canonical hash of the tuple"
)
ASSUMPTIONS = [
    "the closure is computed by ref.ns (validated against the implementation's direct/transitive split in C09/C10)",
    "file opens are observed by replacing the module-global name `open` of pydsdl._dsdl_definition from the harness",
]

REPLACEMENTS = [
    "", "\n", "$$$ not dsdl $$$\n", "uint8\n", "uint8 a b c\n@sealed\n", "@sealed\n@sealed\n", "uint8 a\n", "uint65 a\n@sealed\n", "int1 a\n@sealed\n", "truncated int8 a\n@sealed\n",
    "uint8[0] a\n@sealed\n", "uint8 uint8\n@sealed\n", "uint8 a\nuint8 a\n@sealed\n", "@union\nuint8 a\n@sealed\n", "@union\nuint8 a\nvoid8\nuint8 b\n@sealed\n", "utf8 a\n@sealed\n",
    "uint8 a\n@extent 4\n", "@extent 64\nuint8 a\n", "@deprecated\n@deprecated\n@sealed\n", "@frobnicate\n@sealed\n", "@assert false\n@sealed\n", "@assert 1 / 0 == 1\n@sealed\n",
    "@print 'LEAK'\n@sealed\n", "@print 1\n@print 2\nuint8 a\n@sealed\n", "uint8 a\n@sealed\n---\nuint8 b\n@sealed\n", "uint64[64] big\n@extent 8 * 4096\n", "uint8 a\n@extent 8 * 100\n",
    "Nope.1.0 missing\n@sealed\n", "uint8 K = 256\n@sealed\n", "uint8 K = '\\ud800'\n@sealed\n", "@print (-8) ** (1/3)\n@sealed\n", "@print '\\UFFFFFFFF'\n@sealed\n",
    "\x00\x01\x02", "\ufeff@sealed\n", "uint8 a\r\n@sealed", "#" * 5000 + "\n@sealed\n", "\n".join("uint8 f%d" % i for i in range(300)) + "\n@sealed\n", "@print " + "(" * 80 + "1" + ")" * 80 + "\n@sealed\n",
    "@deprecated\nuint8 a\n@sealed\n", "SELF_PLACEHOLDER r\n@sealed\n", "uint8 a\n@sealed\n# trailing", "@sealed",
    b"\xff\xfe not text at all \x80\x81\n@sealed\n", b"uint8 a # caf\xe9 in Latin-1\n@sealed\n",
]


def extra_configs():
    D = c10.D
    C = {}
    # sibling versions of a referenced lookup definition live outside the closure
    C["sibling-versions"] = {"root": "ra", "lookups": ["rb"], "defs": [D("ra", "ra.A", (1, 0), [("rb.X", (1, 0))]), D("rb", "rb.X", (1, 0)), D("rb", "rb.X", (1, 1)), D("rb", "rb.X", (2, 0)), D("rb", "rb.X", (0, 1))]}
    C["sibling-with-ports"] = {"root": "ra", "lookups": ["rb"], "defs": [D("ra", "ra.A", (1, 0), [("rb.X", (1, 0))]), D("rb", "rb.X", (1, 0), port=6200), D("rb", "rb.X", (1, 1), port=6201), D("rb", "rb.Y", (1, 0), port=6200), D("rb", "rb.Z", (1, 0), port=6200)]}
    C["same-root-other-versions"] = {"root": "ra", "lookups": [], "defs": [D("ra", "ra.A", (1, 0), [("ra.B", (1, 0))]), D("ra", "ra.B", (1, 0)), D("ra", "ra.B", (1, 1)), D("ra", "ra.C", (1, 0), [("ra.B", (1, 1))]), D("ra", "ra.s.D", (1, 0))]}
    C["lookup-with-own-deps"] = {"root": "ra", "lookups": ["rb", "rc"], "defs": [D("ra", "ra.A", (1, 0), [("rb.X", (1, 0))]), D("rb", "rb.X", (1, 0)), D("rb", "rb.W", (1, 0), [("rc.V", (1, 0))]), D("rc", "rc.V", (1, 0)), D("rc", "rc.U", (1, 0), [("rb.W", (1, 0))])]}
    C["no-references"] = {"root": "ra", "lookups": ["rb"], "defs": [D("ra", "ra.A", (1, 0)), D("ra", "ra.B", (1, 0)), D("rb", "rb.X", (1, 0)), D("rb", "rb.s.Y", (1, 0))]}
    # a target with a fixed port-ID; unrelated definitions carrying the same number live in a same-named lookup root / elsewhere in its own root
    C["target-port-vs-lookup-port"] = {"root": "p/ra", "lookups": ["q/ra"], "defs": [D("p/ra", "ra.A", (1, 0), port=6200), D("p/ra", "ra.B", (1, 0)), D("q/ra", "ra.Foreign", (1, 0), port=6200), D("q/ra", "ra.G", (1, 0)), D("q/ra", "ra.s.H", (2, 0), port=6200)]}
    C["same-root-port-siblings"] = {"root": "ra", "lookups": [], "defs": [D("ra", "ra.A", (1, 0), port=6200), D("ra", "ra.legacy.Old", (1, 0), port=6200), D("ra", "ra.legacy.Older", (0, 1), port=6200), D("ra", "ra.C", (1, 0))]}
    # same-identity twins: the same full name and version in another directory / file, never referenced
    C["twin-in-lookup-root"] = {"root": "p/ra", "lookups": ["q/ra"], "defs": [D("p/ra", "ra.A", (1, 0)), D("p/ra", "ra.B", (1, 0), [("ra.C", (1, 0))]), D("q/ra", "ra.A", (1, 0)), D("q/ra", "ra.C", (1, 0)), D("q/ra", "ra.B", (1, 0))]}
    C["twin-in-same-root"] = {"root": "ra", "lookups": [], "defs": [D("ra", "ra.A", (1, 0)), D("ra", "ra.A", (1, 0), port=6200), D("ra", "ra.B", (1, 0))]}
    # a DANGLING reference (the named version does not exist) while other versions of that name do: the outcome is an error, and the
    # sibling versions are still outside the closure (they are not the definition the reference names)
    C["dangling-version"] = {"root": "ra", "lookups": ["rb"], "defs": [D("ra", "ra.A", (1, 0), [("rb.X", (1, 5))]), D("rb", "rb.X", (1, 0)), D("rb", "rb.X", (1, 1)), D("rb", "rb.X", (2, 0)), D("rb", "rb.Y", (1, 5))], "outside_override": [1, 2, 3, 4]}
    C["dangling-version-same-root"] = {"root": "ra", "lookups": [], "defs": [D("ra", "ra.A", (1, 0), [("ra.X", (3, 0))]), D("ra", "ra.X", (1, 0)), D("ra", "ra.X", (2, 0))], "outside_override": [1, 2], "rf_only": [0]}
    # a reference that differs from an existing definition only by letter case (short name / namespace component): rejected, and the
    # definition it resembles is not the one it names
    C["case-mismatch-short-name"] = {"root": "ra", "lookups": ["rb"], "defs": [D("ra", "ra.A", (1, 0), [("rb.x", (1, 0))]), D("rb", "rb.X", (1, 0)), D("rb", "rb.Y", (1, 0))], "outside_override": [1, 2]}
    C["case-mismatch-namespace"] = {"root": "ra", "lookups": ["rb"], "defs": [D("ra", "ra.A", (1, 0), [("rb.S.X", (1, 0))]), D("rb", "rb.s.X", (1, 0))], "outside_override": [1]}
    # a deprecated dependency of which newer, unreferenced versions exist
    dep = "@deprecated\n"
    C["deprecated-dependency-with-newer-versions"] = {"root": "ra", "lookups": ["rb"], "defs": [D("ra", "ra.A", (1, 0), [("rb.X", (1, 0))], text=dep + "rb.X.1.0 r0\nuint8[1] payload\n@sealed\n"), D("rb", "rb.X", (1, 0), text=dep + "uint8[2] payload\n@sealed\n"), D("rb", "rb.X", (1, 1)), D("rb", "rb.X", (2, 0)), D("rb", "rb.X", (0, 9))]}
    C["deprecated-chain"] = {"root": "ra", "lookups": ["rb"], "defs": [D("ra", "ra.A", (1, 0), [("rb.X", (1, 0))], text=dep + "rb.X.1.0 r0\n@sealed\n"), D("rb", "rb.X", (1, 0), [("rb.Y", (1, 0))], text=dep + "rb.Y.1.0 r0\n@sealed\n"), D("rb", "rb.Y", (1, 0), text=dep + "@sealed\n"), D("rb", "rb.Y", (1, 1)), D("rb", "rb.X", (1, 1), [("rb.Y", (1, 1))])]}
    # beyond three of everything: 9 / 12 dependencies in ONE lookup directory next to unreferenced siblings; a root of 70 definitions;
    # a dependency chain deeper than the interpreter allows (outcome: an error) whose files mention an unreferenced definition in a COMMENT
    C["many-dependencies-one-directory"] = {"root": "ra", "lookups": ["rb"], "defs": [D("ra", "ra.A", (1, 0), [("rb.X%d" % i, (1, 0)) for i in range(9)])] + [D("rb", "rb.X%d" % i, (1, 0)) for i in range(9)] + [D("rb", "rb.Unref", (1, 0)), D("rb", "rb.s.Unref2", (1, 0))]}
    C["many-dependencies-two-users"] = {"root": "ra", "lookups": ["rb"], "defs": [D("ra", "ra.A", (1, 0), [("rb.X%d" % i, (1, 0)) for i in range(6)]), D("ra", "ra.B", (1, 0), [("rb.X%d" % i, (1, 0)) for i in range(5, 12)])] + [D("rb", "rb.X%d" % i, (1, 0)) for i in range(12)] + [D("rb", "rb.Unref", (1, 0))]}
    C["wide-root"] = {"root": "ra", "lookups": ["rb"], "defs": [D("ra", "ra.T%02d" % i, (1, 0), [("rb.X", (1, 0))] if i % 10 == 0 else []) for i in range(70)] + [D("rb", "rb.X", (1, 0)), D("rb", "rb.Unref", (1, 0))]}
    chain = [D("ra", "ra.C%03d" % i, (1, 0), text=("# mentions rb.Unref.1.0 and ra.Nowhere.1.0 in a comment\n" + ("C%03d.1.0 next\n" % (i + 1) if i < 119 else "") + "uint8 v\n@sealed\n")) for i in range(120)]
    C["deep-chain-with-comment"] = {"root": "ra", "lookups": ["rb"], "defs": chain + [D("rb", "rb.Unref", (1, 0))], "outside_override": [120], "rn_only": True}
    # a self-referential / cyclic target next to a same-named, same-version TWIN in another directory / file: the reference names the
    # referrer itself (an error), never the twin
    C["self-reference-with-twin-in-lookup-root"] = {"root": "p/ra", "lookups": ["q/ra"], "defs": [D("p/ra", "ra.Node", (1, 0), [("ra.Node", (1, 0))]), D("q/ra", "ra.Node", (1, 0)), D("q/ra", "ra.Other", (1, 0))], "outside_override": [1, 2]}
    C["cycle-with-twin-in-lookup-root"] = {"root": "p/ra", "lookups": ["q/ra"], "defs": [D("p/ra", "ra.A", (1, 0), [("ra.B", (1, 0))]), D("p/ra", "ra.B", (1, 0), [("ra.A", (1, 0))]), D("q/ra", "ra.A", (1, 0)), D("q/ra", "ra.Other", (1, 0))], "outside_override": [2, 3]}
    C["self-reference-with-legacy-twin"] = {"root": "ra", "lookups": [], "defs": [D("ra", "ra.Node", (1, 0), [("ra.Node", (1, 0))]), D("ra", "ra.Node", (1, 0), legacy=True), D("ra", "ra.Other", (1, 0))], "outside_override": [1, 2], "rf_only": [0]}
    # lookup directories that sit next to the root and whose NAMES extend the root's name (acme, acme_ext, acme2): string prefixes of paths
    C["lookup-name-extends-root-name"] = {"root": "ra", "lookups": ["ra_ext", "ra2"], "defs": [D("ra", "ra.A", (1, 0), [("ra_ext.X", (1, 0))]), D("ra", "ra.B", (1, 0)), D("ra_ext", "ra_ext.X", (1, 0)), D("ra_ext", "ra_ext.Unused", (1, 0)), D("ra2", "ra2.Y", (1, 0)), D("ra2", "ra2.s.Z", (1, 0))]}
    C["root-name-extends-lookup-name"] = {"root": "ra_ext", "lookups": ["ra"], "defs": [D("ra_ext", "ra_ext.A", (1, 0), [("ra.X", (1, 0))]), D("ra", "ra.X", (1, 0)), D("ra", "ra.Unused", (1, 0))]}
    C["target-fails"] = {"root": "ra", "lookups": ["rb"], "defs": [D("ra", "ra.A", (1, 0), text="uint8 a\n@assert false\n@sealed\n"), D("rb", "rb.X", (1, 0)), D("rb", "rb.Y", (1, 0))]}
    return C


def all_configs():
    C = dict(c10.configs())
    C.update(extra_configs())
    return C


def graph_configs():
    """every acyclic 3-node graph of two C09 assignments, as C10-style configurations"""
    for a in ("names", "cross-root"):
        for edges in c09.all_edge_sets(3):
            cfg = c09.make_config(a, edges, "abs")
            try:
                N.closure(cfg, cfg["defs"], cfg["defs"])
            except N.Invalid:
                continue
            yield "graph:%s:%s" % (a, "".join("%d%d" % e for e in edges)), cfg


# A relative target that exists under several same-named roots: the file under the FIRST listed root is the target (from_first_in);
# the same-named file under another root is outside the closure, however the list of roots is ordered behind it or padded with duplicates
TWIN_ROOT_LISTS = [["p", "q"], ["p", "q", "p"], ["p", "p", "q"], ["p", "q", "q"], ["p", "q", "p", "q"], ["q", "p"], ["q", "p", "q"], ["q", "q", "p"], ["q", "p", "p"]]


def check_twin_roots(case, R: engine.Acc):
    import os
    from pathlib import Path

    roots = case["roots"]
    first, other = roots[0], ("q" if roots[0] == "p" else "p")
    base = ws.fresh()
    old = os.getcwd()
    try:
        good = "uint8 from_%s\n@print 'target'\n@sealed\n" % first
        ws.write_tree(base, {"%s/vendor/T.1.0.dsdl" % first: good, "%s/vendor/T.1.0.dsdl" % other: "uint16 other\n@sealed\n", "%s/vendor/U.1.0.dsdl" % other: "@sealed\n", "cwd/keep": ""})
        os.chdir(base / "cwd")

        def call():
            prints = []
            del _opened[:]
            try:
                with engine.deadline(20):
                    d, t = pydsdl.read_files([Path("vendor/T.1.0.dsdl")], [base / r / "vendor" for r in roots], [], lambda p, l, x: prints.append([api.rel(base, p), l, x]))
                out = {"ok": [[dump.composite(x) for x in d], [dump.composite(x) for x in t]], "paths": [api.rel(base, x.source_file_path) for x in d]}
            except pydsdl.Error as ex:
                out = {"error": [type(ex).__name__, api.rel(base, ex.path), ex.line]}
            return out, prints, [api.rel(base, p) for p in _opened]

        ref = call()
        victim = "%s/vendor/T.1.0.dsdl" % other
        if "ok" in ref[0] and ref[0]["paths"] != ["%s/vendor/T.1.0.dsdl" % first]:
            R.violation("outside-definition-read-as-target", "the target is the file under the first listed root; its same-named sibling under another root is not referenced by anything", case, observed=ref[0]["paths"], expected=["%s/vendor/T.1.0.dsdl" % first])
            return
        for ri in (2, 20, 22, 7, 24):
            with open(base / victim, "w", encoding="utf-8") as f:
                f.write(REPLACEMENTS[ri])
            R.case(["twin-roots", roots, ri], nontrivial=True, sample=False)
            got = call()
            if got[0] != ref[0] or got[1] != ref[1] or victim in got[2]:
                R.outcome("influenced")
                R.violation("outside-definition-changes-result:twin-roots", "replacing a definition outside the closure leaves the returned types (or the raised error) unchanged", {**case, "replacement": ri}, observed=[got[0] if "error" in got[0] else "different model", got[1], got[2]], expected=[ref[0] if "error" in ref[0] else "reference model", ref[1]])
                return
            R.outcome("unaffected")
    finally:
        os.chdir(old)
        ws.remove(base)


def plan(tier):
    shards = [{"kind": "config", "config": name} for name in all_configs()]
    shards.append({"kind": "twin-roots"})
    shards += [{"kind": "graphs", "part": p, "parts": 16} for p in range(16)]
    shards += [{"kind": "history", "part": p, "parts": 16} for p in range(16)]
    shards += H.plan_shards(['faults', 'minor-versions', 'wide-revisions', 'shared-arguments'])
    return shards


# calls made AFTER a failed call in the same process: definitions that only the earlier call looked at are outside their closure
SECOND_CALLS = [("no-references", "rn", None), ("no-references", "rf", [0]), ("sibling-versions", "rf", [0]), ("lookup-with-own-deps", "rn", None), ("same-root-other-versions", "rf", [3])]
BREAKAGES = ["garbage", "assert-after-references", "intact"]


def history_cases():
    for name, cfg in sorted(all_configs().items()):
        if len(cfg["defs"]) > 12:
            continue
        for op, tsel in operations(cfg):
            out = outside(cfg, op, tsel)
            if out is None:
                continue
            inside = [i for i in range(len(cfg["defs"])) if i not in out]
            for i in inside:
                for how in BREAKAGES:
                    if how == "intact" and i != inside[0]:
                        continue
                    for k in range(len(SECOND_CALLS)):
                        yield {"kind": "history", "config": name, "op": op, "targets": tsel, "broken": i, "how": how, "second": k}


def operations(cfg):
    defs = [d for d in cfg["defs"]]
    if len(defs) > 12:  # large configurations: the namespace, its first and its last target
        yield ("rn", None)
        if not cfg.get("rn_only"):
            troot = [i for i, d in enumerate(defs) if d["dir"] == cfg["root"]]
            yield ("rf", [troot[0]])
            yield ("rf", [troot[-1]])
        return
    yield ("rn", None)
    troot = [i for i, d in enumerate(defs) if d["dir"] == cfg["root"]]
    for i in troot:
        yield ("rf", [i])
    if len(troot) > 1:
        yield ("rf", troot)


def outside(cfg, op, tsel):
    if "outside_override" in cfg:
        # configurations whose outcome is an ERROR (dangling / mis-cased reference): stated by hand which definitions the targets do not name
        if op == "rf" and tsel != [0]:
            return None
        if op == "rn" and cfg.get("rf_only"):
            return None
        if op == "rf" and cfg.get("rn_only"):
            return None
        return list(cfg["outside_override"])
    defs = cfg["defs"]
    all_dirs = sorted({d["dir"] for d in defs})
    if op == "rn":
        targets = [d for d in defs if d["dir"] == cfg["root"]]
        vis = N.visible(cfg, [cfg["root"]], cfg["lookups"])
    else:
        targets = [defs[i] for i in tsel]
        vis = N.visible(cfg, sorted({t["dir"] for t in targets}), [cfg["root"]] + cfg["lookups"])
    try:
        cl = N.closure(cfg, vis, targets)
    except N.Invalid:
        return None
    return [i for i, d in enumerate(defs) if not any(d is x for x in cl)]


def cases(shard, tier):
    if shard.get("kind") == "call-histories":
        yield from H.cases_of(shard)
        return
    if shard["kind"] == "twin-roots":
        for r in TWIN_ROOT_LISTS:
            yield {"kind": "twin-roots", "roots": r}
        return
    if shard["kind"] == "history":
        for k, c in enumerate(history_cases()):
            if k % shard["parts"] == shard["part"]:
                yield c
        return
    if shard["kind"] == "config":
        cfg = all_configs()[shard["config"]]
        big = len(cfg["defs"]) > 12
        for op, tsel in operations(cfg):
            out = outside(cfg, op, tsel)
            if out:
                if big:  # every outside definition of the lookup roots, three of the targets' own root
                    out = [i for i in out if cfg["defs"][i]["dir"] != cfg["root"]] + [i for i in out if cfg["defs"][i]["dir"] == cfg["root"]][:3]
                for i in out:
                    yield {"config": shard["config"], "op": op, "targets": tsel, "outside": i, **({"few": True} if big else {})}
                    if not big:  # the same under strict=True (a flag of the call, not of the closure)
                        yield {"config": shard["config"], "op": op, "targets": tsel, "outside": i, "few": True, "strict": True}
    else:
        for k, (name, cfg) in enumerate(graph_configs()):
            if k % shard["parts"] != shard["part"]:
                continue
            for op, tsel in operations(cfg):
                out = outside(cfg, op, tsel)
                if out:
                    for i in out:
                        yield {"config": name, "op": op, "targets": tsel, "outside": i, "few": True}


_opened: list = []


def worker_init():
    import pydsdl._dsdl_definition as m

    def tracking_open(path, *a, **kw):
        _opened.append(str(path))
        return builtins.open(path, *a, **kw)

    m.open = tracking_open  # type: ignore[attr-defined]


def get_config(name):
    if name.startswith("graph:"):
        _g, a, e = name.split(":")
        edges = [(int(e[i]), int(e[i + 1])) for i in range(0, len(e), 2)]
        return c09.make_config(a, edges, "abs")
    return all_configs()[name]


def run(base, cfg, op, tsel, strict=False):
    del _opened[:]
    prints = []

    def handler(path, line, text):
        prints.append([api.rel(base, path), line, text])

    try:
        with engine.deadline(30):
            if op == "rn":
                res = pydsdl.read_namespace(base / cfg["root"], [base / x for x in cfg["lookups"]], handler, allow_unregulated_fixed_port_id=True, strict=strict)
                out = {"ok": [dump.composite(t) for t in res]}
            else:
                targets = [cfg["defs"][i] for i in tsel]
                d, t = pydsdl.read_files([base / N.file_of(x) for x in targets], [base / x for x in sorted({y["dir"] for y in targets})], [base / x for x in [cfg["root"]] + cfg["lookups"]], handler, allow_unregulated_fixed_port_id=True, strict=strict)
                out = {"ok": [[dump.composite(x) for x in d], [dump.composite(x) for x in t]]}
    except pydsdl.Error as ex:
        out = {"error": [type(ex).__name__, api.rel(base, ex.path), ex.line]}
    except engine.CaseTimeout:
        out = {"error": ["TIMEOUT", None, None]}
    except Exception as ex:  # noqa
        out = {"error": [type(ex).__name__, None, None]}
    return out, prints, [api.rel(base, p) for p in _opened]


def check_history(case, R: engine.Acc):
    cfg = get_config(case["config"])
    files = N.files_of(cfg)
    files.update(cfg.get("extra", {}))
    d = cfg["defs"][case["broken"]]
    vfile = N.file_of(d)
    if case["how"] == "garbage":
        files[vfile] = "$$$ not dsdl $$$\n"
    elif case["how"] == "assert-after-references":
        assert "@sealed" in files[vfile] or d.get("text") is not None
        files[vfile] = files[vfile].replace("@sealed", "@assert false\n@sealed", 1) if "@sealed" in files[vfile] else "@assert false\n" + files[vfile]
    sname, sop, stsel = SECOND_CALLS[case["second"]]
    scfg = get_config(sname)
    R.case([case[k] for k in ("config", "op", "targets", "broken", "how", "second")], nontrivial=case["how"] != "intact", sample=False)
    b1, b2 = ws.fresh(), ws.fresh()
    try:
        ws.write_tree(b1, files)
        ws.write_tree(b2, N.files_of(scfg))
        for base, c in ((b1, cfg), (b2, scfg)):
            for x in [c["root"]] + c["lookups"]:
                (base / x).mkdir(parents=True, exist_ok=True)
        solo = run(b2, scfg, sop, stsel)
        first = run(b1, cfg, case["op"], case["targets"])
        R.outcome("first-call-failed" if "error" in first[0] else "first-call-succeeded")
        after = run(b2, scfg, sop, stsel)
        # reference verdict for the second call: its configurations are valid, so the names are what ref.ns says
        if sop == "rn":
            exp_names = [N.expected_read_namespace(scfg, scfg["root"], scfg["lookups"]), None]
        else:
            t = [scfg["defs"][i] for i in stsel]
            exp_names = list(N.expected_read_files(scfg, t, [scfg["root"]] + scfg["lookups"]))
        for label, got in (("before", solo), ("after", after)):
            o = got[0]
            names = None
            if "ok" in o:
                names = [[str(x["str"]) for x in o["ok"]], None] if sop == "rn" else [[str(x["str"]) for x in o["ok"][0]], [str(x["str"]) for x in o["ok"][1]]]
            if names is None or sorted(names[0]) != sorted(exp_names[0]) or (sop == "rf" and sorted(names[1]) != sorted(exp_names[1])):
                R.outcome("history-influenced")
                R.violation("earlier-call-changes-%s" % ("error" if "error" in o else "result"), "the outcome depends only on the targets and their closure: definitions seen only by an earlier (failed) call in the same process do not influence it", case, observed=o.get("error", names), expected=exp_names)
                return
        if after != solo:
            R.outcome("history-influenced")
            R.violation("earlier-call-changes-observations", "the outcome (types, prints, files opened) depends only on the targets and their closure, not on earlier calls in the process", case, observed=[after[1], after[2]], expected=[solo[1], solo[2]])
            return
        R.outcome("history-independent")
    finally:
        ws.remove(b1)
        ws.remove(b2)


def check_case(case, R: engine.Acc):
    if case.get("kind") == "call-history":
        return H.check_history(case["label"], R, H.project_full, 'outcome-depends-on-earlier-calls', 'the outcome depends only on the targets of THIS call and what they reference')
    if case.get("kind") == "history":
        return check_history(case, R)
    if case.get("kind") == "twin-roots":
        return check_twin_roots(case, R)
    cfg = get_config(case["config"])
    defs = cfg["defs"]
    victim = defs[case["outside"]]
    vfile = N.file_of(victim)
    base = ws.fresh()
    try:
        files = N.files_of(cfg)
        files.update(cfg.get("extra", {}))
        ws.write_tree(base, files)
        for d in [cfg["root"]] + cfg["lookups"]:
            (base / d).mkdir(parents=True, exist_ok=True)
        strict = bool(case.get("strict"))
        ref_out, ref_prints, ref_opened = run(base, cfg, case["op"], case["targets"], strict)
        if vfile in ref_opened:
            R.violation("outside-file-opened", "a definition outside the closure is never opened", {**case, "replacement": None}, observed=ref_opened)
            return
        reps = REPLACEMENTS if not case.get("few") else [REPLACEMENTS[i] for i in (2, 7, 20, 22, 24, 27, 42)]
        if "replacement" in case and case["replacement"] is not None:
            reps = [REPLACEMENTS[case["replacement"]]]
        original = files[vfile]
        for rep in reps:
            ri = REPLACEMENTS.index(rep)
            if isinstance(rep, bytes):  # a file that is not even text
                text = rep
                with open(base / vfile, "wb") as f:
                    f.write(rep)
            else:
                text = rep.replace("SELF_PLACEHOLDER", "%s.%d.%d" % (victim["name"], victim["ver"][0], victim["ver"][1]))
                with open(base / vfile, "w", encoding="utf-8", newline="") as f:
                    f.write(text)
            one = {k: v for k, v in case.items() if k != "few"}
            one["replacement"] = ri
            R.case([case["config"], case["op"], case["targets"], case["outside"], ri, strict], nontrivial=(text != original), sample=(ri == 22 and len(R.samples) < 3))
            out, prints, opened = run(base, cfg, case["op"], case["targets"], strict)
            if out != ref_out:
                R.outcome("influenced")
                kind = "error" if "error" in out else "result"
                R.violation("outside-definition-changes-%s" % kind, "replacing a definition outside the closure leaves the returned types (or the raised error) unchanged", one, observed=out if "error" in out else "different model", expected=ref_out if "error" in ref_out else "reference model")
            elif vfile in opened:
                R.outcome("opened")
                R.violation("outside-file-opened", "a definition outside the closure is never opened", one, observed=opened)
            elif prints != ref_prints or any(p[0] == vfile for p in prints):
                R.outcome("printed")
                R.violation("outside-definition-printed", "@print of an unreferenced definition is never evaluated", one, observed=prints, expected=ref_prints)
            else:
                R.outcome("unaffected")
    finally:
        ws.remove(base)


def finish(tier, M):
    if not M.hist.get("unaffected"):
        raise engine.Vacuous(repr(dict(M.hist)))
    return {"replacements": len(REPLACEMENTS), "configurations": sorted(all_configs())}
