"""
C15 - A type's name, version and port-ID are exactly those encoded in its file path.

Every (layout, file name, way of designating targets and roots, working directory) of the bounded space is read; the
outcome must be the identity encoded in the path (with source_file_path / source_file_path_to_root pointing back) or an
InvalidDefinitionError - never another identity; the designations the API documents must succeed; file names that
do not have the documented shape must be rejected.
"""
from __future__ import annotations

import itertools
import os
import re
from pathlib import Path

import pydsdl

from .. import api, engine, ws
from .. import histories as H

ID = "C15"
LEVEL = "exploration"
DESIGN_REF = "DESIGN.md 4/C15"
RULE = (
    "case = (namespace path under the root, short name, version, port-ID, designation, cwd): namespace paths of depth 0..2 incl. a "
    "sub-namespace named like the root; short names {T, Type_1}; versions {0.1, 1.0, 255.255}; port-ID absent / present; 17 ways of "
    "designating target and roots for read_files (absolute / relative / bare name / no root / symlink / '..' / two roots in both "
    "orders / several bare names incl. the name of an inner directory in both orders / str vs Path) and 5 for read_namespace; cwd in {parent of the root, an unrelated directory, "
    "the directory above the parent of the root (relative targets with a multi-component prefix, the shape of the docstring's first example)}; plus 70 well- and "
    "ill-formed file names; call histories: every ordered pair (thorough: triple) of 8 calls that see one directory under three different roots in ONE process; a relative "
    "target present under two same-named roots, every order of three roots, absolute and relative. Non-trivial iff the namespace depth is >= 1 or the designation is not the absolute path; distinct by "
    "canonical hash of the tuple"
)
ASSUMPTIONS = [
    "leading zeros in numeric components (A.01.0) are not treated as ill-formed (the property does not say); their numeric value is the identity",
    "a directory named like the root ABOVE the root combined with a bare-name designation is inherently ambiguous and excluded",
    "files whose suffix is not exactly .dsdl / .uavcan are not definition files and are ignored",
]

ROOT = "rns"
NS_PATHS = [[], ["sub"], ["sub", "deep"], ["rns"], ["sub", "rns"], ["Sub"], ["a", "b", "c", "d", "e", "f", "g"], ["a", "b", "c", "d", "e", "f", "g", "h"], ["n1", "n2", "n3", "n4", "n5", "n6", "n7", "n8", "n9", "n10", "n11", "n12"]]
SHORTS = ["T", "Type_1"]
VERSIONS = [[0, 1], [1, 0], [255, 255], [1, 100], [2, 0], [2, 117], [3, 17], [0, 200], [2, 0], [17, 42], [174, 2]]  # incl. pairs that coincide under major * 100 + minor / digit concatenation
PORTS = [None, 6200]
RF_DESIGNATIONS = ["abs-abs", "rel-rel", "rel-name", "rel-none", "symlink", "dotdot", "two-roots", "two-roots-reversed", "abs-name", "abs-rel", "rel-abs", "str-args",
                   "abs-names-inner-first", "abs-names-outer-first", "rel-names-inner-first", "rel-names-outer-first", "abs-names-other-first",
                   "iter-args", "iter-args-rel", "map-str-args"]
RN_DESIGNATIONS = ["abs", "rel", "symlink", "dotdot", "str"]
CWDS = ["parent", "elsewhere", "grandparent"]
MUST_SUCCEED = {("iter-args", "parent"), ("iter-args", "elsewhere"), ("iter-args-rel", "parent"), ("map-str-args", "parent"), ("abs-abs", "parent"), ("rel-rel", "parent"), ("rel-name", "parent"), ("rel-none", "parent"), ("abs-abs", "elsewhere"), ("str-args", "parent"),
                # the first example of the read_files docstring: targets given relative to a working directory ABOVE the parent of
                # the root ("workspace/project/types/animals/felines/Tabby.1.0.dsdl") with the roots as bare names or as relative paths
                ("abs-abs", "grandparent"), ("rel-rel", "grandparent"), ("rel-name", "grandparent"),
                # the same targets with the root designated by its ABSOLUTE path: the mapping does not depend on how the root is designated
                ("rel-abs", "parent"), ("rel-abs", "grandparent"), ("rel-abs", "elsewhere")}


def plan(tier):
    shards = [{"kind": "layout", "ns": ns} for ns in NS_PATHS]
    shards += [{"kind": "names", "part": p, "parts": 8} for p in range(8)]
    shards += [{"kind": "histories"}, {"kind": "twin-roots"}, {"kind": "cwd-histories"}, {"kind": "case-twins"}]
    shards += H.plan_shards(['nested-revisions'])
    return shards


NUM_OK = re.compile(r"[0-9]+\Z")
NAME_OK = re.compile(r"[A-Za-z_][A-Za-z0-9_]*\Z")


def expected_from_name(fname: str):
    """None -> ignored (not a definition file); 'reject' ; or (short, major, minor, port)."""
    if not (fname.endswith(".dsdl") or fname.endswith(".uavcan")):
        return None
    parts = fname.split(".")[:-1]
    if len(parts) == 3:
        port, (short, ma, mi) = None, parts
    elif len(parts) == 4:
        port, short, ma, mi = parts
    else:
        return "reject"
    if not (NUM_OK.match(ma) and NUM_OK.match(mi)) or (port is not None and not NUM_OK.match(port)):
        return "reject"
    if not NAME_OK.match(short):
        return "reject"
    ma, mi = int(ma), int(mi)
    if not (0 <= ma <= 255 and 0 <= mi <= 255 and ma + mi > 0):
        return "reject"
    if port is not None and not (0 <= int(port) <= 8191):
        return "reject"
    if re.fullmatch(r"(truncated|saturated|true|false|bool|void\d*|u?int\d*|u?q\d+_\d+|float\d*|optional|aligned|const|struct|super|template|enum|self|and|or|not|auto|type|con|prn|aux|nul|com\d|lpt\d|_.*_)", short.lower()):
        return "reject"
    return (short, ma, mi, None if port is None else int(port))


NAMES = [
    "A.1.0.dsdl", "A.1.0.uavcan", "6200.A.1.0.dsdl", "A.0.1.dsdl", "A.255.255.dsdl", "A.256.0.dsdl", "A.0.0.dsdl", "A.1.dsdl", "A.dsdl", "1.0.dsdl", "A.1.0.0.0.dsdl", "x.6200.A.1.0.dsdl",
    "A.-1.0.dsdl", "A.1.-0.dsdl", "A.+1.0.dsdl", "A.1.+0.dsdl", "A.1_0.0.dsdl", "A.1.1_0.dsdl", "A. 1.0.dsdl", "A.1 .0.dsdl", "A.1. 0.dsdl", "A.١.0.dsdl", "A.1.٠.dsdl", "A.１.0.dsdl",
    "A.1e1.0.dsdl", "A.0x1.0.dsdl", "A.1.0x0.dsdl", "-6200.A.1.0.dsdl", "6_200.A.1.0.dsdl", "+6200.A.1.0.dsdl", " 6200.A.1.0.dsdl", "٦200.A.1.0.dsdl", "8192.A.1.0.dsdl", "8191.A.1.0.dsdl",
    "99999999999999999999.A.1.0.dsdl", "A.99999999999999999999.0.dsdl", "A B.1.0.dsdl", "a-b.1.0.dsdl", "9A.1.0.dsdl", "uint8.1.0.dsdl", "K.1.0.dsdl", "A.1.0.DSDL", "A.1.0.Dsdl", "A.1.0.dsdl.bak",
    "A.1.0..dsdl", "A..0.dsdl", "A.1..dsdl", "_.1.0.dsdl", "__.1.0.dsdl", "A.01.0.dsdl", "A.1.00.dsdl", "A.001.000.dsdl", "006200.A.1.0.dsdl", "A.1.0.uavcan.dsdl", ".A.1.0.dsdl", "6143.A.1.0.dsdl",
    "Caf\u00e9.1.0.dsdl", "Speed\u0661.1.0.dsdl", "A\u00b2.1.0.dsdl", "x\u212a.1.0.dsdl", "Stra\u00dfe.1.0.dsdl", "T\u0435mp.1.0.dsdl", "A\uff11.1.0.dsdl", "A\n.1.0.dsdl", "A\u2028.1.0.dsdl",
    "A.1\n.0.dsdl", "A.1.0\n.dsdl", "6200\n.A.1.0.dsdl", "A.\n1.0.dsdl", "A.1.0\r.dsdl", "A.1\t.0.dsdl", "A.1.0\n\n.dsdl", "6200 .A.1.0.dsdl", "A.1.0\u2028.dsdl", "A.1\x0b.0.dsdl",
    "0.A.1.0.dsdl", "A.1.0.dsdl ", "A.1.0. dsdl", "A.1.0.dsdl\n", "A\t.1.0.dsdl", "A.1.0x.dsdl", "A.1.0L.dsdl", "A.1.².dsdl", "A.௧.0.dsdl", "A.1.0.UAVCAN", "6200.6200.A.1.dsdl", "A.1.0.dsdl.dsdl",
]


HIST_OPS = [
    ("rn", "ws/outer", None), ("rn", "ws/outer/inner", None), ("rn", "ws/outer/inner/deep", None),
    ("rf", "ws/outer/inner/X.1.0.dsdl", "ws/outer"), ("rf", "ws/outer/inner/X.1.0.dsdl", "ws/outer/inner"),
    ("rf", "ws/outer/inner/deep/Y.1.0.dsdl", "ws/outer"), ("rf", "ws/outer/inner/deep/Y.1.0.dsdl", "ws/outer/inner"), ("rf", "ws/outer/inner/deep/Y.1.0.dsdl", "ws/outer/inner/deep"),
]


def cases(shard, tier):
    if shard.get("kind") == "call-histories":
        yield from H.cases_of(shard)
        return
    if shard["kind"] == "case-twins":
        n = len(CASE_TWINS)
        subsets = [list(c) for c in itertools.combinations(range(n), 2)] + [[0, 1, 2], [3, 4, 5, 6, 7], list(range(n))]
        for sub in subsets:
            for d in CASE_TWIN_DESIGNATIONS:
                yield {"kind": "case-twins", "targets": sub, "designation": d}
        return
    if shard["kind"] == "cwd-histories":
        n = len(CWD_OPS)
        for i in range(n):
            for j in range(n):
                if CWD_OPS[i][1] != CWD_OPS[j][1]:
                    yield {"kind": "cwd-history", "ops": [i, j]}
                    if tier != "quick" or (i + j) % 5 == 0:
                        yield {"kind": "cwd-history", "ops": [i, j, i]}
        return
    if shard["kind"] == "histories":
        n = len(HIST_OPS)
        for i in range(n):
            for j in range(n):
                yield {"kind": "history", "ops": [i, j]}
        if tier != "quick":
            for t in itertools.product(range(n), repeat=3):
                yield {"kind": "history", "ops": list(t)}
        return
    if shard["kind"] == "twin-roots":
        for order in itertools.permutations(["p", "q", "r"]):
            for spelling in ("abs", "rel"):
                yield {"kind": "twin-roots", "order": list(order), "spelling": spelling}
                # a file that exists under only ONE of the same-named roots, designated relative to the roots' parents, from
                # every working directory (the parent of its own root, the parents of the roots that lack it, elsewhere)
                for cwd in ("cwd", "p", "q", "r", "."):
                    yield {"kind": "twin-roots", "order": list(order), "spelling": spelling, "only-in": "r", "cwd": cwd}
        return
    if shard["kind"] == "layout":
        for short, ver, port in itertools.product(SHORTS, VERSIONS, PORTS):
            if tier == "quick" and short == "Type_1" and ver != [1, 0]:
                continue
            for cwd in CWDS:
                for d in RF_DESIGNATIONS:
                    if d == "rel-none" and cwd != "parent":
                        continue  # no root given and the target starts with '..': the inferred root is not the intended one; the property does not define this case
                    yield {"kind": "read_files", "ns": shard["ns"], "short": short, "ver": ver, "port": port, "designation": d, "cwd": cwd}
                for d in RN_DESIGNATIONS:
                    yield {"kind": "read_namespace", "ns": shard["ns"], "short": short, "ver": ver, "port": port, "designation": d, "cwd": cwd}
    else:
        for i, n in enumerate(NAMES):
            if i % shard["parts"] == shard["part"]:
                for sub in ([], ["sub"]):
                    yield {"kind": "name", "name": n, "ns": sub}
        if shard["part"] == 0:
            # namespace DIRECTORY names are names too
            for d in ("gr\u00f6sse", "sub\u0661", "x\u212a", "sub\n", "s\u00b2", "Sub", "_s", "s1"):
                yield {"kind": "name", "name": "A.1.0.dsdl", "ns": [d]}


def identity(t: pydsdl.CompositeType, base: Path):
    return {
        "full_name": t.full_name,
        "version": [t.version.major, t.version.minor],
        "port": t.fixed_port_id,
        "source_file_path": api.rel(base, t.source_file_path),
        "source_file_path_to_root": api.rel(base, t.source_file_path_to_root),
    }


def check_layout(case, R: engine.Acc):
    base = ws.fresh()
    old = os.getcwd()
    try:
        wsd = base / "ws"
        root = wsd / ROOT
        fname = "%s%s.%d.%d.dsdl" % ("" if case["port"] is None else "%d." % case["port"], case["short"], case["ver"][0], case["ver"][1])
        rel_file = Path(ROOT, *case["ns"], fname)
        f = wsd / rel_file
        f.parent.mkdir(parents=True)
        uses_dep = case["designation"] in ("two-roots", "two-roots-reversed")
        is_service = case["short"] == "Type_1" and case["port"] is None  # a service definition: its request / response parts carry paths too
        f.write_text(("other.x.O.1.0 dep\n" if uses_dep else "") + "uint8 a\n@sealed\n" + ("---\nuint8 b\n@extent 64\n" if is_service else ""))
        other = wsd / "other"
        (other / "x").mkdir(parents=True)
        (other / "x" / "O.1.0.dsdl").write_text("@sealed\n")
        (base / "elsewhere").mkdir()
        (base / "links").mkdir()
        os.symlink(root, base / "links" / ROOT)
        cwd = {"parent": wsd, "elsewhere": base / "elsewhere", "grandparent": base}[case["cwd"]]
        os.chdir(cwd)
        relp = lambda p: Path(os.path.relpath(p, cwd))  # noqa: E731
        d = case["designation"]
        exp = {
            "full_name": ".".join([ROOT] + case["ns"] + [case["short"]]),
            "version": case["ver"],
            "port": case["port"],
            "source_file_path": str(Path("ws") / rel_file),
            "source_file_path_to_root": "ws/" + ROOT,
        }
        R.case(case, nontrivial=(len(case["ns"]) >= 1 or d not in ("abs-abs", "abs")), sample=(d == "rel-name" and len(case["ns"]) == 2 and case["port"] is not None))
        try:
            with engine.deadline(20):
                if case["kind"] == "read_namespace":
                    arg = {"abs": root, "rel": relp(root), "symlink": base / "links" / ROOT, "dotdot": wsd / "other" / ".." / ROOT, "str": str(root)}[d]
                    res = pydsdl.read_namespace(arg, [], allow_unregulated_fixed_port_id=True)
                else:
                    if d == "abs-abs":
                        tg, roots = [f], [root]
                    elif d == "rel-rel":
                        tg, roots = [relp(f)], [relp(root)]
                    elif d == "rel-name":
                        tg, roots = [relp(f)], [Path(ROOT)]
                    elif d == "rel-none":
                        tg, roots = [relp(f)], []
                    elif d == "symlink":
                        tg, roots = [base / "links" / rel_file], [base / "links" / ROOT]
                    elif d == "dotdot":
                        tg, roots = [wsd / ROOT / ".." / rel_file], [wsd / "other" / ".." / ROOT]
                    elif d == "two-roots":
                        tg, roots = [f], [root, other]
                    elif d == "two-roots-reversed":
                        tg, roots = [f], [other, root]
                    elif d == "abs-name":
                        tg, roots = [f], [Path(ROOT)]
                    elif d == "abs-rel":
                        tg, roots = [f], [relp(root)]
                    elif d == "rel-abs":
                        tg, roots = [relp(f)], [root]
                    elif d in ("abs-names-inner-first", "abs-names-outer-first", "rel-names-inner-first", "rel-names-outer-first"):
                        # several bare root-namespace names, one of which also names a directory INSIDE the root: the identity
                        # must not depend on the order in which the names are listed
                        inner = case["ns"][0] if case["ns"] else "other"
                        names = [Path(inner), Path(ROOT)] if "inner-first" in d else [Path(ROOT), Path(inner)]
                        tg, roots = [f if d.startswith("abs") else relp(f)], names
                    elif d == "abs-names-other-first":
                        tg, roots = [f], [Path("other"), Path(ROOT)]
                    elif d == "iter-args":  # one-shot iterables are legal values of an Iterable parameter
                        tg, roots = iter([f]), (r for r in [root])
                    elif d == "iter-args-rel":
                        tg, roots = iter([relp(f)]), (r for r in [relp(root)])
                    elif d == "map-str-args":
                        tg, roots = map(str, [relp(f)]), map(str, [relp(root)])
                    else:
                        tg, roots = str(f), str(root)
                    res, _tr = pydsdl.read_files(tg, roots, [], allow_unregulated_fixed_port_id=True)
                    if uses_dep:
                        # the identity of a TRANSITIVE type comes from its own path and root as well
                        tgot = [identity(t, base) for t in _tr]
                        texp = [{"full_name": "other.x.O", "version": [1, 0], "port": None, "source_file_path": "ws/other/x/O.1.0.dsdl", "source_file_path_to_root": "ws/other"}]
                        if tgot != texp:
                            R.violation("identity-differs:transitive", "name, version, port-ID and source paths of a dependency are those encoded in ITS path", case, observed=tgot, expected=texp)
        except pydsdl.InvalidDefinitionError as ex:
            must = (d, case["cwd"]) in MUST_SUCCEED if case["kind"] == "read_files" else d in ("abs", "str") or case["cwd"] == "parent"
            if must:
                R.outcome("documented-designation-rejected")
                R.violation("documented-designation-rejected:%s:%s" % (case["kind"], d), "the documented ways of designating targets and roots work", case, observed=api.exc_obs(ex, base), expected=exp)
            else:
                R.outcome("rejected")
            return
        except (OSError, ValueError) as ex:
            R.outcome("oserror")
            if (d, case["cwd"]) in MUST_SUCCEED:
                R.violation("documented-designation-raised:%s" % type(ex).__name__, "the documented ways of designating targets and roots work", case, observed=repr(ex)[:300])
            return
        got = [identity(t, base) for t in res]
        # a caller that modifies the lists the accessors hand out does not change what the object IS
        for t in res:
            for acc in ("name_components", "attributes", "fields", "constants"):
                try:
                    v = getattr(t, acc)
                except Exception:  # noqa (services have no fields)
                    continue
                if isinstance(v, list):
                    v.reverse()
                    v.append("intruder")
                    if v:
                        v.pop(0)
        again = [identity(t, base) for t in res]
        if again != got or [str(t) for t in res] != ["%s.%d.%d" % (g["full_name"], g["version"][0], g["version"][1]) for g in got]:
            R.violation("identity-changes-with-caller-side-mutation", "name, version and paths of a type do not change when the caller modifies a list an accessor returned", case, observed=again, expected=got)
            return
        if len(got) == 1 and got[0] == exp and isinstance(res[0], pydsdl.ServiceType):
            for part, suffix in ((res[0].request_type, "Request"), (res[0].response_type, "Response")):
                pexp = dict(exp, full_name=exp["full_name"] + "." + suffix, port=None)
                pgot = identity(part, base)
                if pgot != pexp:
                    bad = next(k for k in pexp if pgot[k] != pexp[k])
                    R.violation("identity-differs:service-part:" + bad, "the request / response types of a service point back to the service's file and root directory", case, observed=pgot, expected=pexp)
                    return
        if len(got) != 1 or got[0] != exp:
            R.outcome("identity-wrong")
            bad = "count" if len(got) != 1 else next(k for k in exp if got[0][k] != exp[k])
            R.violation("identity-differs:%s:%s:%s" % (case["kind"], d, bad), "name, version, port-ID and source paths are exactly those encoded in the path", case, observed=got, expected=exp)
        else:
            R.outcome("identity-ok")
    finally:
        os.chdir(old)
        ws.remove(base)


def check_name(case, R: engine.Acc):
    name = case["name"]
    exp = expected_from_name(name)
    if exp not in (None, "reject") and not all(NAME_OK.match(d) for d in case["ns"]):
        exp = "reject"  # a namespace component that is not a plain ASCII identifier
    rel = "/".join([ROOT] + case["ns"] + [name])
    try:
        o = api.read_namespace_tree({rel: "@sealed\n"}, ROOT, allow_unregulated_fixed_port_id=True, with_paths=True)
        o2 = api.read_files_tree({rel: "@sealed\n"}, [rel], [ROOT], allow_unregulated_fixed_port_id=True)
    except (OSError, ValueError):
        R.counters["unwritable_names"] += 1
        return
    for apiname, ob in (("read_namespace", o), ("read_files", o2)):
        R.case([apiname, name, case["ns"]], nontrivial=True, sample=(apiname == "read_files" and "_" in name))
        one = {**case, "api": apiname}
        if exp is None and apiname == "read_files":
            continue  # explicitly targeting a non-definition file: not covered by the property
        if ob.error is not None:
            if not ob.error["ide"]:
                R.outcome("foreign-exception")
                R.violation("foreign-exception:%s@%s" % (ob.error["cls"], ob.error.get("culprit")), "ill-formed file names are rejected with InvalidDefinitionError", one, observed=ob.error)
            elif exp == "reject":
                R.outcome("ill-formed-rejected")
            elif exp is None:
                R.violation("non-definition-file-reported", "files without the .dsdl/.uavcan suffix are not definitions", one, observed=ob.error)
            else:
                R.outcome("well-formed-rejected")
                R.violation("well-formed-name-rejected", "a well-formed file name yields the identity it encodes", one, observed=ob.error, expected=exp)
            continue
        types = ob.types
        if exp is None:
            if types:
                R.violation("non-definition-file-read", "files without the .dsdl/.uavcan suffix are not definitions", one, observed=[t["full_name"] for t in types])
            else:
                R.outcome("ignored")
            continue
        if exp == "reject":
            R.outcome("ill-formed-accepted")
            cls = "numeric-component-not-plain-decimal" if re.search(r"[+_ ٠-٩０-９²௦-௯]", name) else "shape"
            R.violation("ill-formed-name-accepted:" + cls, "file names that do not have the documented shape are rejected", one, observed=[[t["full_name"], t["version"], t["fixed_port_id"]] for t in types], expected="InvalidDefinitionError")
            continue
        short, ma, mi, port = exp
        want = [".".join([ROOT] + case["ns"] + [short]), [ma, mi], port]
        got = [[t["full_name"], t["version"], t["fixed_port_id"]] for t in types]
        if got != [want]:
            R.violation("identity-differs:name", "name, version and port-ID are exactly those encoded in the file name", one, observed=got, expected=want)
        else:
            R.outcome("identity-ok")


def check_history(case, R: engine.Acc):
    """Several calls in ONE process that see the same directory under different roots: the identity is a function of the file's
    path relative to the root designated in THIS call."""
    base = ws.fresh()
    try:
        ws.write_tree(base, {"ws/outer/inner/X.1.0.dsdl": "uint8 x\n@sealed\n", "ws/outer/inner/deep/Y.1.0.dsdl": "uint16 y\n@sealed\n", "ws/outer/Z.1.0.dsdl": "@sealed\n"})
        done = []
        for i in case["ops"]:
            kind, arg, root = HIST_OPS[i]
            done.append(i)
            try:
                with engine.deadline(20):
                    if kind == "rn":
                        res = pydsdl.read_namespace(base / arg, [])
                        rootdir = arg
                        files = sorted(str(p.relative_to(base)) for p in (base / arg).rglob("*.dsdl"))
                    else:
                        res, _t = pydsdl.read_files([base / arg], [base / root], [])
                        rootdir = root
                        files = [arg]
            except Exception as ex:  # noqa
                R.violation("history-call-raised:%s" % type(ex).__name__, "every call of the history succeeds", {**case, "ops": done}, observed=repr(ex)[:300])
                return
            exp = []
            for f in files:
                relp = Path(f).relative_to(Path(rootdir).parent)
                exp.append({"full_name": ".".join(list(relp.parent.parts) + [relp.name.split(".")[0]]), "version": [1, 0], "port": None, "source_file_path": f, "source_file_path_to_root": rootdir})
            got = sorted((identity(t, base) for t in res), key=lambda d: d["source_file_path"])
            exp = sorted(exp, key=lambda d: d["source_file_path"])
            if got != exp:
                R.outcome("identity-wrong")
                R.violation("identity-depends-on-earlier-calls", "name and root are those encoded by the path relative to the root designated in this call, whatever was read before in the same process", {**case, "ops": done}, observed=got, expected=exp)
                return
        R.case(case, nontrivial=True, sample=(case["ops"] == [0, 1]))
        R.outcome("history-ok")
    finally:
        ws.remove(base)


CWD_TREES = {
    "wa": {"vendor/Status.1.0.dsdl": "uint8 a\n@sealed\n", "vendor/sub/7001.Thing.1.2.dsdl": "@sealed\n"},
    "wb": {"vendor/Status.2.5.dsdl": "uint16 b\n@sealed\n", "vendor/other/Item.0.1.dsdl": "@sealed\n", "vendor/sub/Thing.1.2.dsdl": "uint8 t\n@sealed\n"},
    "wc/deeper": {"vendor/Status.1.0.dsdl": "uint32 c\n@sealed\n"},
}
CWD_OPS = [(op, cwd, sp) for cwd in CWD_TREES for op in ("rn", "rf") for sp in ("path", "str", "dot")]


def check_cwd_history(case, R: engine.Acc):
    """The same RELATIVE designation under different working directories, in one process: what a relative path denotes is decided
    when the call is made, not when the path was first seen."""
    base = ws.fresh()
    old = os.getcwd()
    try:
        for w, tree in CWD_TREES.items():
            ws.write_tree(base, {"%s/%s" % (w, k): v for k, v in tree.items()})
        done = []
        for i in case["ops"]:
            op, cwd, sp = CWD_OPS[i]
            done.append(i)
            os.chdir(base / cwd)
            root = {"path": Path("vendor"), "str": "vendor", "dot": Path("./vendor")}[sp]
            files = sorted(CWD_TREES[cwd])
            try:
                with engine.deadline(20):
                    if op == "rn":
                        res = pydsdl.read_namespace(root, [], allow_unregulated_fixed_port_id=True)
                    else:
                        files = files[:1]
                        tg = files[0] if sp == "str" else Path(files[0])
                        res, _t = pydsdl.read_files([tg], [root] if sp != "dot" else ["vendor"], [], allow_unregulated_fixed_port_id=True)
            except Exception as ex:  # noqa
                R.violation("history-call-raised:%s" % type(ex).__name__, "every call of the history succeeds", {**case, "ops": done}, observed=repr(ex)[:300])
                return
            exp = []
            for f in files:
                parts = Path(f).name.split(".")[:-1]
                port = int(parts[0]) if len(parts) == 4 else None
                short, ma, mi = parts[-3:]
                exp.append({"full_name": ".".join(list(Path(f).parent.parts) + [short]), "version": [int(ma), int(mi)], "port": port, "source_file_path": "%s/%s" % (cwd, f), "source_file_path_to_root": "%s/vendor" % cwd})
            got = sorted((identity(t, base) for t in res), key=lambda d: d["source_file_path"])
            exp = sorted(exp, key=lambda d: d["source_file_path"])
            if got != exp:
                R.outcome("identity-wrong")
                R.violation("identity-depends-on-earlier-working-directory", "a relative designation denotes the directory it names under the working directory of THIS call", {**case, "ops": done}, observed=got, expected=exp)
                return
        R.case(case, nontrivial=True, sample=(case["ops"] == [0, 7]))
        R.outcome("history-ok")
    finally:
        os.chdir(old)
        ws.remove(base)


CASE_TWINS = ["sensor/Status.1.0.dsdl", "sensor/status.1.0.dsdl", "sensor/STATUS.1.0.dsdl", "Nav/6300.Fix.2.1.dsdl", "nav/6301.Fix.2.1.dsdl", "nav/Fix.1.0.dsdl", "nav/fix.1.0.dsdl", "NAV/Fix.1.0.dsdl"]
CASE_TWIN_DESIGNATIONS = ["abs", "name", "rel", "inferred", "reversed", "str"]


def check_case_twins(case, R: engine.Acc):
    """Target files whose encoded names differ only by letter case are different files that encode different names: every one of
    them comes back with its own identity (subsets of 2..all targets, every designation of the root)."""
    base = ws.fresh()
    old = os.getcwd()
    try:
        sel = [CASE_TWINS[i] for i in case["targets"]]
        ws.write_tree(base, {"ws/acme/" + f: "uint8[%d] payload\n@sealed\n" % (i + 1) for i, f in enumerate(CASE_TWINS)})
        os.chdir(base / "ws")
        root = base / "ws" / "acme"
        d = case["designation"]
        targets, roots = {
            "abs": ([root / f for f in sel], [root]), "name": ([root / f for f in sel], "acme"), "rel": ([Path("acme") / f for f in sel], [Path("acme")]),
            "inferred": ([Path("acme") / f for f in sel], []), "reversed": ([root / f for f in reversed(sel)], [str(root)]), "str": (["acme/" + f for f in sel], ["acme"]),
        }[d]
        exp = []
        for f in sel:
            parts = Path(f).name.split(".")[:-1]
            exp.append({"full_name": ".".join(["acme"] + list(Path(f).parent.parts) + [parts[-3]]), "version": [int(parts[-2]), int(parts[-1])], "port": int(parts[0]) if len(parts) == 4 else None,
                        "source_file_path": "ws/acme/" + f, "source_file_path_to_root": "ws/acme"})
        R.case(case, nontrivial=True, sample=(d == "name" and case["targets"] == [0, 1]))
        try:
            with engine.deadline(20):
                res, _t = pydsdl.read_files(targets, roots, [], allow_unregulated_fixed_port_id=True)
            got = [identity(t, base) for t in res]
        except pydsdl.InvalidDefinitionError as ex:
            got = ["rejected", type(ex).__name__]
        key = lambda x: x["source_file_path"] if isinstance(x, dict) else str(x)  # noqa: E731
        if sorted(got, key=key) != sorted(exp, key=key):
            R.outcome("identity-wrong")
            R.violation("identity-differs:case-twins", "every target file yields a type with the identity encoded in ITS path, also when the names of several targets differ only by letter case", case, observed=got, expected=exp)
        else:
            R.outcome("case-twins-ok")
    finally:
        os.chdir(old)
        ws.remove(base)


def check_twin_roots(case, R: engine.Acc):
    """A relative target that exists under several same-named roots: DSDLDefinition.from_first_in documents that the FIRST listed root
    under which the file is found is used; the identity must point back to that file and that root."""
    base = ws.fresh()
    old = os.getcwd()
    try:
        ws.write_tree(base, {"p/rns/sub/T.1.0.dsdl": "uint8 p\n@sealed\n", "q/rns/sub/T.1.0.dsdl": "uint16 q\n@sealed\n", "r/rns/other/U.1.0.dsdl": "@sealed\n", "cwd/keep": ""})
        os.chdir(base / case.get("cwd", "cwd"))
        up = Path(".") if case.get("cwd") == "." else Path("..")
        mk = (lambda d: base / d / "rns") if case["spelling"] == "abs" else (lambda d: up / d / "rns")
        roots = [mk(d) for d in case["order"]]
        if "only-in" in case:
            exp = [{"full_name": "rns.other.U", "version": [1, 0], "port": None, "source_file_path": "r/rns/other/U.1.0.dsdl", "source_file_path_to_root": "r/rns"}]
            R.case(case, nontrivial=True, sample=(case["order"] == ["q", "p", "r"] and case["cwd"] == "q"))
            try:
                with engine.deadline(20):
                    res, _t = pydsdl.read_files([Path("rns/other/U.1.0.dsdl")], roots, [])
                got = [identity(t, base) for t in res]
            except pydsdl.InvalidDefinitionError as ex:
                got = ["rejected", type(ex).__name__]
            if got != exp:
                R.outcome("identity-wrong")
                R.violation("identity-differs:twin-roots:only-in-one", "a relative target that exists under exactly one of several same-named roots is that file, whatever the working directory", case, observed=got, expected=exp)
            else:
                R.outcome("twin-roots-ok")
            return
        first = next(d for d in case["order"] if d in ("p", "q"))
        exp = [{"full_name": "rns.sub.T", "version": [1, 0], "port": None, "source_file_path": "%s/rns/sub/T.1.0.dsdl" % first, "source_file_path_to_root": "%s/rns" % first}]
        R.case(case, nontrivial=True, sample=(case["order"] == ["q", "p", "r"]))
        try:
            with engine.deadline(20):
                res, _t = pydsdl.read_files([Path("rns/sub/T.1.0.dsdl")], roots, [])
        except pydsdl.InvalidDefinitionError as ex:
            R.outcome("rejected")  # rejecting the ambiguous designation is not a wrong identity
            return
        got = [identity(t, base) for t in res]
        fields = [str(f) for f in res[0].fields] if res else []
        if got != exp or fields != ["saturated uint%d %s" % (8 if first == "p" else 16, first)]:
            R.outcome("identity-wrong")
            R.violation("identity-differs:twin-roots", "a relative target found under several same-named roots is taken from the first listed one (from_first_in), and path, root and content belong together", case, observed=[got, fields], expected=exp)
        else:
            R.outcome("twin-roots-ok")
    finally:
        os.chdir(old)
        ws.remove(base)


def check_case(case, R):
    if case.get("kind") == "call-history":
        return H.check_history(case["label"], R, H.project_full, 'identity-depends-on-earlier-calls', 'identity and source paths are those of the files read in THIS call')
    if case["kind"] == "history":
        return check_history(case, R)
    if case["kind"] == "twin-roots":
        return check_twin_roots(case, R)
    if case["kind"] == "case-twins":
        return check_case_twins(case, R)
    if case["kind"] == "cwd-history":
        return check_cwd_history(case, R)
    if case["kind"] == "name":
        check_name(case, R)
    else:
        check_layout(case, R)


def finish(tier, M):
    need = ["identity-ok", "ill-formed-rejected", "history-ok"]
    miss = [n for n in need if not M.hist.get(n)]
    if miss:
        raise engine.Vacuous("outcome classes not seen: %s" % miss)
    return {"designations_read_files": RF_DESIGNATIONS, "designations_read_namespace": RN_DESIGNATIONS, "file_names": len(NAMES)}
