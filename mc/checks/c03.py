"""
C03 - The model mirrors the source text, independent of formatting.

History search over the parser/builder LINE-EVENT machine: a state is the line history that reaches it; for every
history the REAL reader (pydsdl.read_namespace on a scratch tree) is run on the program "frame + history" under every
end-of-input and formatting variant, and the resulting model must equal ref.doc's model of the abstract lines.
"""
from __future__ import annotations

import itertools

from .. import api, engine
from .. import histories as H
from ..ref import doc as refdoc

ID = "C03"
LEVEL = "model_checking"
DESIGN_REF = "DESIGN.md section 4 / C03"
RULE = (
    "case = (frame, body line history[, response history]) x (EOF variant x formatting variant); histories are ALL "
    "sequences over the line alphabet up to the tier's length bound (BFS order, simplest first), every history is run "
    "as a complete program on the real reader (finalize-at-EOF checked in every state); non-trivial iff the history "
    "contains at least one attribute line; distinct by canonical hash of (frame, history, variant). "
    "states = distinct (frame, history) nodes of the history tree, transitions = line events appended (edges of the "
    "tree), traces_validated_against_impl = programs executed on the real reader and compared with the reference model"
)
ASSUMPTIONS = [
    "ref.doc (comment attachment convention, source order) is the specification; validated against the repository's _unittest_comments convention",
    "whitespace-only lines are empty lines with trailing blanks (C03 lists trailing blanks as irrelevant formatting)",
    "formatting inside comments and string literals is content, not formatting, and is not varied",
    "a bare '#' line is explored only as a continuation of a non-empty comment block (an empty first line of a block is dropped by the implementation; the property does not say)",
    "bodies longer than the tier bound and attribute types beyond {uint8, void3, nested composite} are outside the bound",
]

ROOT = "rns"
DEP_FILES = {"rns/Dep.1.0.dsdl": "bool OFF = false\nbool ON = true\nuint8 ZERO = 0\n@sealed\n"}

# line alphabet: one symbol per branch of the flush logic
SYMS_FULL = ["F", "F#", "K", "C", "E", "P", "K#", "Kx", "A", "A#", "R", "D", "Kf", "C0", "Kd"]
SYMS_SMALL = ["F", "F#", "K", "C", "E", "Kx", "C0"]
ATTR_SYMS = {"F", "F#", "K", "K#", "Kx", "P", "D", "Kf"}

VARIANTS = [
    # (name, eol, final_eol, blanks, wsonly)
    ("lf", "\n", True, False, False),
    ("lf-noeol", "\n", False, False, False),
    ("crlf", "\r\n", True, False, False),
    ("crlf-noeol", "\r\n", False, False, False),
    ("blanks", "\n", True, True, False),
    ("blanks-noeol", "\n", False, True, False),
    ("wsonly", "\n", True, False, True),
    ("wsonly-noeol", "\n", False, False, True),
]
VARIANT_BY_NAME = {v[0]: v for v in VARIANTS}


def body_lines(syms: list[str], prefix: str) -> list[dict] | None:
    """Abstract lines of a body history; None if the history is not a valid program (Kx without earlier constant).
    The response section of a service (prefix 'r') deliberately REUSES the attribute names of the request section - the two
    sections are separate scopes - but with different constant values."""
    out = []
    last_const = None
    voff = 100 if prefix == "r" else 0
    tag = prefix
    prefix = ""
    for i, s in enumerate(syms):
        # '#c' and '# c' spellings both occur; beyond position 1 the TEXT of the comment itself starts with '#', with blanks, or
        # ends with blanks-before-'#' look-alikes ("# # heading", "##x", "#  indented", "# #x"): only the marker and ONE blank go
        c = ["c%s%d", " c%s%d", " # c%s%d", "#c%s%d", "  c%s%d", " #c%s%d # not a second comment"][i % 2 if i < 2 else i % 6] % (tag, i)
        if s in ("F", "F#"):
            out.append({"stmt": ["field", "saturated uint8", "%sf%d" % (prefix, i)], "comment": c if s == "F#" else None, "src": ["uint8", "%sf%d" % (prefix, i)]})
        elif s == "D":
            out.append({"stmt": ["field", "rns.Dep.1.0", "%sf%d" % (prefix, i)], "comment": None, "src": ["Dep.1.0", "%sf%d" % (prefix, i)]})
        elif s == "P":
            out.append({"stmt": ["pad", "void3"], "comment": None, "src": ["void3"]})
        elif s in ("K", "K#"):
            name = "%sK%d" % (prefix.upper(), i)
            val = (i + voff) % 200 + 1  # stays within uint8 for bodies of any length (identical to i + 1 + voff for short ones)
            out.append({"stmt": ["const", "saturated uint8", name, val], "comment": c if s == "K#" else None, "src": ["uint8", name, "=", str(val)]})
            last_const = (name, val)
        elif s == "Kf":
            name = "%sF%d" % (prefix.upper(), i)
            out.append({"stmt": ["const", "saturated float64", name, {"q": [i + 1 + voff, 3] if (i + 1 + voff) % 3 else [10 * (i + 1 + voff) + 1, 30]}], "comment": None, "src": ["float64", name, "=", "%d" % (i + 1 + voff if (i + 1 + voff) % 3 else 10 * (i + 1 + voff) + 1), "/", "3" if (i + 1 + voff) % 3 else "30"]})
        elif s == "Kd":
            # a constant initialised from a constant of ANOTHER definition whose value is false / true / zero
            name = "%sD%d" % (prefix.upper(), i)
            typ, val, ref = [("bool", {"bool": False}, "Dep.1.0.OFF"), ("bool", {"bool": True}, "rns.Dep.1.0.ON"), ("saturated uint8", 0, "Dep.1.0.ZERO")][(i + voff) % 3]
            out.append({"stmt": ["const", typ, name, val], "comment": None, "src": [typ.split()[-1], name, "=", ref]})
        elif s == "Kx":
            if last_const is None:
                return None
            name = "%sK%d" % (prefix.upper(), i)
            out.append({"stmt": ["const", "saturated uint8", name, last_const[1] + 1], "comment": None, "src": ["uint8", name, "=", last_const[0], "+", "1"]})
            last_const = (name, last_const[1] + 1)
        elif s == "C":
            out.append({"stmt": None, "comment": c, "src": []})
        elif s == "C0":
            # a bare '#': an empty line INSIDE a comment block (paragraph break). Only explored as a continuation of a non-empty
            # comment: whether an empty FIRST line of a block counts is not settled by the property (see ASSUMPTIONS)
            if not out or not out[-1]["comment"]:
                return None
            out.append({"stmt": None, "comment": "", "src": []})
        elif s == "E":
            out.append({"stmt": None, "comment": None, "src": []})
        elif s in ("A", "A#"):
            out.append({"stmt": ["dir", "assert", "true", None], "comment": c if s == "A#" else None, "src": ["@assert", "true"]})
        elif s == "R":
            out.append({"stmt": ["dir", "print", str(i + 40), i + 40], "comment": None, "src": ["@print", str(i + 40)]})
        else:
            raise ValueError(s)
    return out


def D(name, arg=None, val=None, src=None):
    return {"stmt": ["dir", name, arg, val], "comment": None, "src": src or ["@" + name]}


def section_lines(frame: dict, syms: list[str], prefix: str, first: bool) -> list[dict] | None:
    body = body_lines(syms, prefix)
    if body is None:
        return None
    nfields = sum(1 for s in syms if s in ("F", "F#", "D"))
    if frame["union"] and (nfields < 2 or "P" in syms):
        return None
    out = []
    for h in range(frame["header"]):
        out.append({"stmt": None, "comment": " %shdr%d" % (prefix, h), "src": []})
    if first and frame["deprecated"]:
        out.append(D("deprecated"))
    if frame["union"]:
        out.append(D("union"))
    if frame["mode"] == "sealed-first":
        out.append(D("sealed"))
    out += body
    if frame["mode"] == "sealed-last":
        out.append(D("sealed"))
    elif frame["mode"] == "extent-last":
        out.append(D("extent", "64 * 8", 512, ["@extent", "64", "*", "8"]))
    elif frame["mode"] == "extent-zero":
        # an extent of exactly zero bits: only a section without fields can have it; it is a delimited type all the same
        if nfields or "P" in syms:
            return None
        out.append(D("extent", "0", 0, ["@extent", "0"]))
    return out


def program_lines(case: dict) -> list[dict] | None:
    fr = case["frame"]
    lines = section_lines(fr, case["body"], "", True)
    if lines is None:
        return None
    if case.get("resp") is not None:
        lines.append({"stmt": ["marker"], "comment": None, "src": ["---"]})
        r = section_lines(fr, case["resp"], "r", False)
        if r is None:
            return None
        lines += r
    return lines


def render(lines: list[dict], variant) -> str:
    _name, eol, final_eol, blanks, wsonly = variant
    sep = "  \t " if blanks else " "
    out = []
    for ln in lines:
        s = sep.join(ln["src"])
        if blanks and ln["src"]:
            s += " \t"  # trailing blanks on statement lines
        if ln["comment"] is not None:
            if ln["src"]:
                s += ("    " if blanks else " ") + "#" + ln["comment"]
            else:
                s += ("  " if blanks else "") + "#" + ln["comment"]
        if wsonly and not ln["src"] and ln["comment"] is None:
            s = " \t "
        out.append(s)
    return eol.join(out) + (eol if final_eol else "")


def canonical_text(p: dict) -> str:
    """Render the (projected) model back to canonical DSDL (C03 round-trip clause)."""
    out = []
    for si, s in enumerate(p["sections"]):
        if si == 1:
            out.append("---")
        if s["doc"]:
            out += [("# " + x) if x else "#" for x in s["doc"].split("\n")]
        else:
            out.append("")  # keep a following attribute comment from becoming the header
        if si == 0 and p["deprecated"]:
            out.append("@deprecated")
        if s["union"]:
            out.append("@union")
        for a in s["fields"] + s["constants"]:
            st = a["str"]  # pydsdl's own normalized DSDL form of the attribute (str(attribute))
            docl = a["doc"].split("\n") if a["doc"] else []
            if docl:
                st += " # " + docl[0]
            out.append(st)
            out += ["# " + x for x in docl[1:]]
            out.append("")
        out.append("@sealed" if s["sealed"] else "@extent %d" % s["extent"])
    return "\n".join(out) + "\n"


# -----------------------------------------------------------------------------------------------------------------
def frames(tier: str, which: str) -> list[dict]:
    fs = []
    if which == "full":
        for header, union, dep, mode in itertools.product([0, 1, 2], [False, True], [False, True], ["sealed-first", "sealed-last", "extent-last"]):
            fs.append({"header": header, "union": union, "deprecated": dep, "mode": mode})
        for header, dep in itertools.product([0, 1], [False, True]):
            fs.append({"header": header, "union": False, "deprecated": dep, "mode": "extent-zero"})
    elif which == "mid":
        for header, union, mode in itertools.product([0, 1], [False, True], ["sealed-first", "sealed-last", "extent-last"]):
            fs.append({"header": header, "union": union, "deprecated": False, "mode": mode})
    elif which == "basic":
        for header, mode in itertools.product([0, 1], ["sealed-first", "sealed-last", "extent-last"]):
            fs.append({"header": header, "union": False, "deprecated": False, "mode": mode})
        fs.append({"header": 0, "union": False, "deprecated": False, "mode": "extent-zero"})
    elif which == "min":
        fs = [
            {"header": 0, "union": False, "deprecated": False, "mode": "sealed-first"},
            {"header": 0, "union": False, "deprecated": False, "mode": "sealed-last"},
            {"header": 1, "union": False, "deprecated": False, "mode": "extent-last"},
        ]
    return fs


SYMS_MID = ["F", "F#", "K#", "C", "E", "P", "A", "D"]
EOF_VARIANTS = ["lf", "lf-noeol", "crlf-noeol", "wsonly-noeol"]
MIN_VARIANTS = ["lf", "lf-noeol", "wsonly"]


def plan(tier: str):
    shards = []
    allv = [v[0] for v in VARIANTS]
    if tier == "quick":
        # (a) all histories of length <= 2 over the full alphabet x all 36 frames x all 8 variants
        for f in frames(tier, "full"):
            shards.append({"syms": "full", "maxlen": 2, "minlen": 0, "frame": f, "variants": allv})
        # (b) all histories of length 3 x 6 basic frames x all 8 variants (split by first symbol)
        for f in frames(tier, "basic"):
            for first in SYMS_FULL:
                shards.append({"syms": "full", "maxlen": 3, "minlen": 3, "frame": f, "variants": ["lf", "lf-noeol", "crlf-noeol", "blanks", "wsonly-noeol"], "first": first})
        # (c) all histories of length 4 over the 8-symbol alphabet x 3 frames x 3 variants
        for f in frames(tier, "min"):
            for first in SYMS_MID:
                shards.append({"syms": "mid", "maxlen": 4, "minlen": 4, "frame": f, "variants": MIN_VARIANTS, "first": first})
        # (d) services: request/response histories <= 2 over the small alphabet
        for f in frames(tier, "basic"):
            shards.append({"syms": "small", "maxlen": 2, "minlen": 0, "frame": f, "variants": EOF_VARIANTS, "service": True})
    else:
        for f in frames(tier, "full"):
            shards.append({"syms": "full", "maxlen": 3, "minlen": 0, "frame": f, "variants": allv})
        for f in frames(tier, "basic"):
            for first in SYMS_FULL:
                shards.append({"syms": "full", "maxlen": 4, "minlen": 4, "frame": f, "variants": ["lf", "lf-noeol", "crlf-noeol", "blanks", "wsonly-noeol"], "first": first})
        for f in frames(tier, "min"):
            for first in SYMS_MID:
                for second in SYMS_MID:
                    shards.append({"syms": "mid", "maxlen": 5, "minlen": 5, "frame": f, "variants": MIN_VARIANTS, "first": first, "second": second})
        for f in frames(tier, "mid"):
            shards.append({"syms": "small", "maxlen": 2, "minlen": 0, "frame": f, "variants": allv, "service": True})
        for f in frames(tier, "basic"):
            shards.append({"syms": "mid", "maxlen": 2, "minlen": 0, "frame": f, "variants": EOF_VARIANTS, "service": True})
    shards += H.plan_shards(['nested-revisions', 'doc-faults'])
    shards += [{"kind": "scale", "part": p, "parts": 8} for p in range(8)]
    return shards


def histories(syms, minlen, maxlen, first=None, second=None):
    for n in range(minlen, maxlen + 1):
        for h in itertools.product(syms, repeat=n):
            if first is not None and (n == 0 or h[0] != first):
                continue
            if second is not None and (n < 2 or h[1] != second):
                continue
            yield list(h)


def cases(shard, tier):
    if shard.get("kind") == "call-histories":
        yield from H.cases_of(shard)
        return
    if shard.get("kind") == "scale":
        for i, c in enumerate(scale_cases(tier)):
            if i % shard["parts"] == shard["part"]:
                yield c
        return
    syms = {"full": SYMS_FULL, "small": SYMS_SMALL, "mid": SYMS_MID}[shard["syms"]]
    vs = shard["variants"]
    if shard.get("service"):
        for b in histories(syms, shard["minlen"], shard["maxlen"]):
            for r in histories(syms, shard["minlen"], shard["maxlen"]):
                yield {"frame": shard["frame"], "body": b, "resp": r, "variants": vs}
        return
    for b in histories(syms, shard["minlen"], shard["maxlen"], shard.get("first"), shard.get("second")):
        yield {"frame": shard["frame"], "body": b, "resp": None, "variants": vs}


def _diff_fingerprint(exp: dict, act: dict, variant: str, lines) -> tuple[str, str]:
    noeol = variant.endswith("noeol")
    for si, (es, as_) in enumerate(zip(exp["sections"], act["sections"])):
        en = [f["name"] for f in es["fields"]] + [c["name"] for c in es["constants"]]
        an = [f["name"] for f in as_["fields"]] + [c["name"] for c in as_["constants"]]
        if len(an) < len(en):
            if noeol:
                return "attribute-lost-when-text-has-no-final-newline", "every attribute statement appears exactly once"
            return "attribute-lost", "every attribute statement appears exactly once"
        if len(an) > len(en):
            return "attribute-duplicated", "every attribute statement appears exactly once"
        if en != an:
            return "attribute-order-or-name", "source order / declared name"
        for ea, aa in zip(es["fields"] + es["constants"], as_["fields"] + as_["constants"]):
            if ea["doc"] != aa["doc"]:
                if "wsonly" in variant:
                    return "comment-attachment-differs-on-whitespace-only-line", "attached comment (blank-only line must act as an empty line)"
                if noeol:
                    return "comment-lost-when-text-has-no-final-newline", "attached comment"
                return "comment-attachment", "attached comment"
            if ea != aa:
                return "attribute-type-or-value", "normalized type / evaluated value"
        if es["doc"] != as_["doc"]:
            if noeol:
                return "header-comment-lost-when-text-has-no-final-newline", "header comment"
            if "wsonly" in variant:
                return "header-comment-differs-on-whitespace-only-line", "header comment"
            return "header-comment", "header comment"
        for k in ("union", "sealed", "extent"):
            if es[k] != as_[k]:
                return "flag-" + k, "kind/flags reflect directives"
    if exp["service"] != act["service"] or len(exp["sections"]) != len(act["sections"]):
        return "service-split", "--- split reflected in request/response"
    if exp["deprecated"] != act["deprecated"]:
        return "flag-deprecated", "kind/flags reflect directives"
    return "model-mismatch", "model equals reference"


# ---------------------------------------------------------------------------------------------------------------
# scale: definitions of dozens of documented attributes (more lines than any chunk size), services with dozens of same-named constants,
# files larger than the I/O block sizes whose line endings / multi-byte characters sit exactly on a block boundary
def scale_cases(tier):
    basic = {"header": 1, "union": False, "deprecated": False, "mode": "sealed-last"}
    for n in (20, 33, 40, 70, 130):
        body = []
        for i in range(n):
            body += [["F#", "K#", "F", "Kx" if i > 3 else "K"][i % 4], "C"] + (["C"] if i % 3 == 0 else []) + (["E"] if i % 5 == 0 else [])
        yield {"frame": basic, "body": body, "resp": None, "variants": ["lf", "crlf", "lf-noeol", "blanks"]}
    for n in (8, 9, 16, 17, 20, 40):
        body = ["K"] * n + ["Kx", "F", "Kx"]
        yield {"frame": {"header": 0, "union": False, "deprecated": False, "mode": "sealed-last"}, "body": body, "resp": list(body), "variants": ["lf", "crlf-noeol"]}
        yield {"frame": {"header": 1, "union": False, "deprecated": False, "mode": "sealed-first"}, "body": ["K#", "C"] * n + ["Kx"], "resp": ["K"] * n + ["Kx", "Kx"], "variants": ["lf"]}
    from ..gen import scale as S

    bs = S.BOUNDARIES if tier != "quick" else S.BOUNDARIES[:5]
    for b in bs:
        for what, eol in (("crlf", "\r\n"), ("cr", "\r"), ("utf8-2", "\n"), ("utf8-3", "\r\n"), ("utf8-4", "\r")):
            yield {"kind": "scale-file", "boundary": b, "what": what, "eol": eol}


def check_scale_file(case, R: engine.Acc) -> None:
    from ..gen import scale as S

    tail = ["uint8 a # doc of a", "# continued", "", "# dropped", "uint16 B = 7 # doc of B", "@sealed"]
    text, first = S.straddling_text(case["boundary"], case["what"], tail, case["eol"])
    R.case(case, nontrivial=True, sample=False)
    R.state([case["boundary"], case["what"]])
    R.traces += 1
    o = api.read_namespace_tree({"rns/T.1.0.dsdl": text.encode("utf-8")}, ROOT)
    if o.error is not None:
        R.violation("valid-definition-rejected:large-file:%s" % o.error["cls"], "every valid definition is accepted", case, observed=o.error)
        return
    t = [x for x in o.types if x["full_name"] == "rns.T"][0]
    lines = text.replace("\r\n", "\n").replace("\r", "\n").split("\n")
    header = "\n".join((l[2:] if l.startswith("# ") else l[1:]) for l in lines[: first - 1])
    got = {"doc": t["doc"], "attrs": [[a["name"], a["doc"]] for a in t["attributes"]]}
    exp = {"doc": header, "attrs": [["a", "doc of a\ncontinued"], ["B", "doc of B"]]}
    if got != exp:
        where = "header" if got["doc"] != exp["doc"] else "attribute"
        R.violation("comment-attachment:large-file:" + where, "the model mirrors the source text wherever the file's line endings and multi-byte characters fall", case, observed={"doc_length": len(got["doc"]), "doc_tail": got["doc"][-80:], "attrs": got["attrs"]}, expected={"doc_length": len(exp["doc"]), "doc_tail": exp["doc"][-80:], "attrs": exp["attrs"]})
    else:
        R.outcome("match")


def check_case(case, R: engine.Acc) -> None:
    if case.get("kind") == "scale-file":
        return check_scale_file(case, R)
    if case.get("kind") == "call-history":
        return H.check_history(case["label"], R, H.project_full, 'model-depends-on-earlier-calls', 'the model mirrors the source text of THIS call')
    lines = program_lines(case)
    if lines is None:
        return  # not a valid definition: outside the quantifier of C03
    hist_key = [case["frame"], case["body"], case.get("resp")]
    R.state(hist_key)
    R.transitions += len(case["body"]) + len(case.get("resp") or [])
    nontrivial = any(s in ATTR_SYMS for s in case["body"] + (case.get("resp") or []))
    exp = refdoc.expected_model(lines)
    exp_prints = [["rns/T.1.0.dsdl", n, t] for n, t in exp.pop("prints")]
    dumps = {}
    for vname in case["variants"]:
        variant = VARIANT_BY_NAME[vname]
        text = render(lines, variant)
        files = dict(DEP_FILES)
        files["rns/T.1.0.dsdl"] = text.encode("utf-8")
        o = api.read_namespace_tree(files, ROOT)
        vcase = {"frame": case["frame"], "body": case["body"], "resp": case.get("resp"), "variants": [vname]}
        R.case(vcase, nontrivial=nontrivial, sample=(len(case["body"]) >= 3 and nontrivial))
        R.traces += 1
        if o.error is not None:
            R.outcome("rejected")
            R.violation("valid-definition-rejected%s:%s" % ("-without-final-newline" if vname.endswith("noeol") else "", o.error["cls"]), "every valid definition is accepted", vcase, observed={"error": o.error, "text": text}, expected="accepted")
            continue
        t = [x for x in o.types if x["full_name"] == "rns.T"]
        if len(t) != 1:
            R.violation("target-missing", "one composite per file", vcase, observed=[x["str"] for x in o.types])
            continue
        act = refdoc.project_actual(t[0])
        dumps[vname] = t[0]
        if act != exp:
            fp, clause = _diff_fingerprint(exp, act, vname, lines)
            R.outcome("mismatch:" + fp)
            R.violation(fp, clause, vcase, observed={"model": act, "text": text}, expected=exp)
        else:
            R.outcome("match")
        if o.prints != exp_prints:
            R.violation("print-delivery", "@print delivered exactly once with its line", vcase, observed=o.prints, expected=exp_prints)
        # round trip through canonical DSDL (only once per history: on the plain variant)
        if vname == "lf" and act == exp:
            files2 = dict(DEP_FILES)
            files2["rns/T.1.0.dsdl"] = canonical_text(act).encode()
            o2 = api.read_namespace_tree(files2, ROOT)
            R.counters["roundtrips"] += 1
            if o2.error is not None:
                R.violation("roundtrip-rejected", "canonical rendering is readable", vcase, observed={"error": o2.error, "text": files2["rns/T.1.0.dsdl"].decode()})
            else:
                t2 = [x for x in o2.types if x["full_name"] == "rns.T"][0]
                if t2 != t[0]:
                    R.violation("roundtrip-differs", "render(model) read again yields an equal model", vcase, observed={"text": files2["rns/T.1.0.dsdl"].decode(), "model": refdoc.project_actual(t2)}, expected=act)
    # differential clause, independent of the reference: the full dump is invariant under formatting
    if len(dumps) >= 2:
        names = list(dumps)
        base = dumps[names[0]]
        for n in names[1:]:
            if dumps[n] != base:
                fp = "formatting-changes-model:" + ("noeol" if n.endswith("noeol") != names[0].endswith("noeol") else n.split("-")[0])
                R.violation(fp, "model invariant under irrelevant formatting", {"frame": case["frame"], "body": case["body"], "resp": case.get("resp"), "variants": [names[0], n]}, observed=refdoc.project_actual(dumps[n]), expected=refdoc.project_actual(base))
                break


def finish(tier, M: engine.Acc):
    if M.hist.get("match", 0) + sum(v for k, v in M.hist.items() if k.startswith("mismatch")) == 0:
        raise engine.Vacuous("no program was read")
    if M.counters.get("roundtrips", 0) == 0:
        raise engine.Vacuous("no round trip executed")
    return {
        "bounds": {"quick": "all histories <=2 over 12 symbols x 36 frames x 8 variants; length 3 x 6 frames x 5 variants; length 4 over 8 symbols x 3 frames x 3 variants; services <=2+<=2 over 5 symbols x 6 frames x 4 variants", "thorough": "all histories <=3 over 13 symbols x 36 frames x 8 variants; length 4 x 6 frames x 5 variants; length 5 over 8 symbols x 3 frames x 3 variants; services <=2+<=2 x 12 frames x 8 variants"}[tier],
        "alphabet": SYMS_FULL,
        "variants": [v[0] for v in VARIANTS],
    }
