"""
C06 - serialize/deserialize round-trip and produce the Specification's wire encoding.

Every (type, value) pair of the bounded space: serialize == ref.codec.encode byte for byte, the length is an element of
the type's bit_length_set, deserialize(serialize(v)) == canon(v), omitted fields == defaults, relaxed spellings encode to
the same bytes, with and without the top-level delimiter header.
"""
from __future__ import annotations

import itertools

import pydsdl

from .. import engine
from .. import histories as H
from ..gen import types as T
from ..gen import values as V
from ..ref import codec as C
from ..ref import layout as L
from .c02 import F2, REPS1

ID = "C06"
LEVEL = "exploration"
DESIGN_REF = "DESIGN.md 4/C06"
RULE = (
    "case = (composite type description, value); types: every scalar of the width alphabet and every array over it wrapped "
    "as struct[x], struct[bool,x] / struct[uint3,x] (unaligned start) and union[x,bool]; all structures <=3 fields and unions "
    "2..3 variants over the depth-1 field alphabet (sealed, delimited min, min+8); depth-2 composites with a nested "
    "composite/array-of-composites field; values: the canonical value alphabet V(type) (boundary/out-of-range numbers, "
    "special floats, empty/one/full arrays, every variant, capped field products, omitted fields). Non-trivial iff the "
    "representation is >= 2 bytes or the type contains a sub-byte field; distinct by canonical hash of (type, value)"
)
ASSUMPTIONS = [
    "ref.codec is the Specification's wire format (own IEEE-754 encoder self-checked against struct on all binary16 patterns and midpoints)",
    "values are Python numbers/str/bytes/list/dict; an integral-valued float given to an integer field denotes that integer (in range, at the range ends, far outside); non-integral floats for integer fields (rounding rule) and other coercions the property does not mention are not explored",
    "arrays longer than 3 elements are outside the bound except the 255/256 boundary family",
]

SUBBYTE = [["bool"], ["uint", 3, "s"], ["uint", 17, "t"], ["varr", ["bool"], 3]]


def wrap_scalars(tier):
    ws = T.W_QUICK if tier == "quick" else T.W_THOROUGH
    for s in T.scalars(ws):
        yield ["struct", [s]]
        yield ["struct", [["bool"], s, ["uint", 3, "s"]]]
        yield ["union", [s, ["bool"]]]
    arr_elems = T.scalars([1, 3, 8, 17] if tier == "quick" else [1, 2, 3, 7, 8, 9, 16, 17, 33, 64]) + [["byte"], ["utf8"]]
    for a in T.arrays_over(arr_elems):
        yield ["struct", [a]]
        yield ["struct", [["uint", 3, "s"], a, ["bool"]]]
    for a in T.arrays_over(T.arrays_over([["bool"], ["uint", 3, "s"], ["uint", 8, "s"]], (2,), (2,)), (2,), (2,)):
        yield ["struct", [["bool"], a]]
    for cap in (255, 256):
        yield ["struct", [["varr", ["uint", 8, "s"], cap]]]
        yield ["struct", [["bool"], ["varr", ["bool"], cap]]]


def with_delim(d, plus=(0, 8)):
    yield d
    for p in plus:
        yield ["delim", d, -(-L.tmax(d) // 8) * 8 + p]


def is_nested(f):
    return T.is_composite(f) or (f[0] in ("farr", "varr") and T.is_composite(f[1]))


# composites holding fixed byte / text arrays (bulk paths of the array codec), and arrays of them
BYTES_INSIDE = [["struct", [["farr", ["byte"], 2], ["bool"]]], ["union", [["farr", ["byte"], 2], ["varr", ["utf8"], 2]]], ["delim", ["struct", [["farr", ["byte"], 3]]], 32]]
BYTES_NESTED = BYTES_INSIDE + [["farr", BYTES_INSIDE[0], 2], ["varr", BYTES_INSIDE[0], 2], ["varr", BYTES_INSIDE[2], 2]]


def depth2(tier):
    nested = [f for f in F2 if is_nested(f)] + BYTES_NESTED
    for c in nested:
        yield from with_delim(["struct", [c]])
        for a in SUBBYTE:
            yield from with_delim(["struct", [a, c]], (0,))
            yield from with_delim(["struct", [c, a]], (0,))
            yield ["union", [a, c]]
            yield ["union", [c, a]]
            for b in SUBBYTE:
                yield ["struct", [a, c, b]]
    for c1, c2 in itertools.product(nested, repeat=2):
        yield ["struct", [c1, c2]]
        yield ["union", [c1, c2]]
        yield ["delim", ["struct", [c1, ["bool"], c2]], L.tmax(["struct", [c1, ["bool"], c2]]) + 8]
        if tier != "quick":
            yield ["struct", [["uint", 3, "s"], c1, ["varr", c2, 2]]]


def depth3(tier):
    sl = [d for i, d in enumerate(depth2(tier)) if i % 11 == 0]
    for c in sl:
        for a in SUBBYTE[:3]:
            yield ["struct", [a, c, a]]
            yield ["struct", [a, ["varr", c, 2]]]
            yield ["union", [a, ["delim", ["struct", [c]], L.tmax(["struct", [c]]) + 8]]]


def family(name, tier):
    if name == "scalars":
        yield from wrap_scalars(tier)
    elif name == "depth1s":
        for d in T.structs(T.F1, 3):
            yield from with_delim(d)
    elif name == "depth1u":
        for d in T.unions(T.F1, 3):
            yield from with_delim(d, (0,))
    elif name == "depth2":
        yield from depth2(tier)
    elif name == "depth3":
        yield from depth3(tier)
    elif name == "medium":
        yield from T.medium(tier)
    elif name == "big":
        # arrays of 15..40 elements of every element kind (aligned, after a sub-byte field, inside a delimited type), and kilobyte-sized
        # fixed fields at the end of a structure (omitted in some values)
        i8, u8, u16 = ["int", 8], ["uint", 8, "s"], ["uint", 16, "s"]
        elems = [i8, u8, ["byte"], ["utf8"], ["int", 16], u16, ["float", 32, "s"], ["float", 16, "t"], ["bool"], ["uint", 3, "s"], ["struct", [i8]], ["delim", ["struct", [u8]], 16], ["union", [i8, ["bool"]]]]
        for e in elems:
            for n in ((15, 16, 17, 33) if tier == "quick" else (8, 9, 15, 16, 17, 31, 32, 33, 40, 64, 65)):
                if e[0] != "utf8":
                    yield ["struct", [["farr", e, n]]]
                    yield ["struct", [["bool"], ["farr", e, n], ["uint", 3, "s"]]]
                yield ["struct", [["uint", 3, "s"], ["varr", e, n]]]
                yield ["delim", ["struct", [["varr", e, n], ["bool"]]], -(-L.tmax(["struct", [["varr", e, n], ["bool"]]]) // 8) * 8 + 8]
        for e, n in ((u8, 1024), (u8, 1025), (u16, 600), (["bool"], 8200), (["byte"], 1100), (["struct", [u8]], 1030)):
            yield ["struct", [u8, ["farr", e, n]]]
            yield ["struct", [["bool"], ["farr", e, n]]]
            yield ["delim", ["struct", [u8, ["farr", e, n]]], L.tmax(["struct", [u8, ["farr", e, n]]]) + 64]
            yield ["struct", [["delim", ["struct", [u8, ["farr", e, n]]], L.tmax(["struct", [u8, ["farr", e, n]]]) + 64], u8]]
    elif name == "colliders":
        # unions / structures over variants whose length sets differ but agree in min, max and residues mod 32: every representation's
        # length must still be an element of the type's bit_length_set
        for g in T.COLLIDERS:
            for a, b in itertools.permutations(g, 2):
                yield ["union", [a, b]]
                yield ["struct", [["union", [a, b]], ["bool"]]]
                yield ["struct", [a, b]]
                yield ["union", [["farr", a, 2], ["farr", b, 2]]]
                yield ["delim", ["union", [a, b]], L.tmax(["union", [a, b]]) + 8]
    elif name == "nested-arrays":
        # arrays of arrays of composites (only constructible through the API): alignment is that of the innermost element
        comps = [["struct", [["uint", 8, "s"]]], ["struct", [["bool"]]], ["union", [["bool"], ["uint", 8, "s"]]], ["delim", ["struct", [["uint", 8, "s"]]], 16], ["struct", []]]
        for c in comps:
            for outer_k, inner_k in itertools.product(("farr", "varr"), repeat=2):
                arr = [outer_k, [inner_k, c, 2], 2]
                for lead in (["bool"], ["uint", 5, "s"], ["uint", 8, "s"]):
                    yield ["struct", [lead, arr, ["bool"]]]
                yield ["union", [["bool"], arr]]
                yield ["struct", [["uint", 3, "s"], ["farr", ["farr", ["farr", c, 2], 1], 2]]]


ALIAS_POOL = [
    ["union", [["bool"], ["uint", 8, "s"]]], ["union", [["uint", 8, "s"], ["bool"]]], ["union", [["bool"], ["uint", 8, "s"], ["int", 16]]], ["union", [["int", 16], ["bool"], ["uint", 8, "s"]]],
    ["union", [["varr", ["uint", 8, "s"], 2], ["bool"]]], ["union", [["bool"], ["varr", ["uint", 8, "s"], 2]]],
    ["struct", [["bool"], ["uint", 8, "s"]]], ["struct", [["uint", 8, "s"], ["bool"]]], ["struct", [["uint", 8, "s"]]], ["struct", [["int", 16], ["bool"], ["uint", 3, "s"]]], ["struct", [["uint", 3, "s"], ["int", 16], ["bool"]]],
    ["struct", [["varr", ["bool"], 3], ["uint", 8, "s"]]], ["struct", [["uint", 8, "s"], ["varr", ["bool"], 3]]],
    ["delim", ["struct", [["uint", 8, "s"]]], 16], ["delim", ["struct", [["uint", 8, "s"], ["bool"]]], 16], ["delim", ["struct", [["uint", 8, "s"]]], 64], ["delim", ["union", [["bool"], ["uint", 8, "s"]]], 16],
    ["struct", [["union", [["bool"], ["uint", 8, "s"]]], ["bool"]]], ["struct", [["union", [["uint", 8, "s"], ["bool"]]], ["bool"]]],
]


def plan(tier):
    fams = [("scalars", 8), ("depth1s", 24), ("depth1u", 16), ("depth2", 32), ("colliders", 4), ("nested-arrays", 4), ("medium", 8), ("big", 16)]
    if tier != "quick":
        fams.append(("depth3", 32))
    shards = [{"family": n, "part": p, "parts": k} for n, k in fams for p in range(k)]
    shards += [{"family": "aliases", "part": p, "parts": 8} for p in range(8)]
    shards += H.plan_shards(['nested-revisions', 'delimited-revisions'], 2)
    return shards


def cases(shard, tier):
    if shard.get("kind") == "call-histories":
        yield from H.cases_of(shard)
        return
    if shard["family"] == "aliases":
        # operation histories on DISTINCT types that share one full name (same or different version): process-wide state
        # keyed by a type's name instead of the type would make the outcome depend on what was serialized before
        i = 0
        for a, b in itertools.product(range(len(ALIAS_POOL)), repeat=2):
            if a == b:
                continue
            for same_version in (True, False):
                if i % shard["parts"] == shard["part"]:
                    yield {"alias": [a, b], "same_version": same_version}
                i += 1
        return
    for i, d in enumerate(family(shard["family"], tier)):
        if i % shard["parts"] == shard["part"]:
            yield {"desc": d, "cap": 32 if tier == "quick" else 64}


def check_alias(case, R: engine.Acc):
    a, b = (ALIAS_POOL[i] for i in case["alias"])
    ta = T.build_named(a, "Alias", (1, 0))
    tb = T.build_named(b, "Alias", (1, 0) if case["same_version"] else (1, 1))
    for step, (desc, t) in enumerate([(a, ta), (b, tb), (a, ta), (b, tb)]):
        for vi, v in enumerate(V.values(desc, cap=12)):
            try:
                want = C.encode(desc, v)
                cv = C.canon(desc, v)
            except C.BadValue:
                continue
            one = {**case, "step": step, "value": repr(v)}
            R.case([case["alias"], case["same_version"], step, repr(v)], nontrivial=True, sample=(step == 1 and vi == 1 and len(R.samples) < 2))
            R.counters["alias_operations"] += 1
            try:
                got = pydsdl.serialize(t, v)
                back = pydsdl.deserialize(t, got)
            except Exception as ex:  # noqa
                R.violation("history-dependent-codec:raised:" + type(ex).__name__, "serialize/deserialize of a type do not depend on other types that share its name", one, observed=repr(ex)[:200], expected=want.hex())
                return
            if got != want or not C.same(back, cv):
                R.outcome("alias-mismatch")
                R.violation("history-dependent-codec:" + desc[0], "serialize/deserialize of a type do not depend on other types that share its name", one, observed={"bytes": got.hex(), "back": repr(back)[:200]}, expected={"bytes": want.hex(), "value": repr(cv)[:200]})
                return
    R.outcome("alias-ok")


def has_subbyte(desc) -> bool:
    k = desc[0]
    if k == "bool":
        return True
    if k in ("uint", "int", "float", "void"):
        return desc[1] % 8 != 0
    if k in ("byte", "utf8"):
        return False
    if k in ("farr", "varr"):
        return has_subbyte(desc[1])
    if k == "delim":
        return has_subbyte(desc[1])
    return any(has_subbyte(f) for f in desc[1])


def length_in_set(nbits: int, b: pydsdl.BitLengthSet, expanded) -> bool:
    if not (b.min <= nbits <= b.max):
        return False
    for d in (8, 16, 32, 64, 7):
        if nbits % d not in set(b % d):
            return False
    if expanded is not None and nbits not in expanded:
        return False
    return True


_cache: dict = {}


class _Unencodable:
    def __repr__(self):
        return "<unencodable>"


def _poison(v):
    """v with its LAST leaf replaced by an object no field can encode."""
    if isinstance(v, dict) and v:
        k = list(v)[-1]
        return {**v, k: _poison(v[k])}
    if isinstance(v, list) and v:
        return v[:-1] + [_poison(v[-1])]
    return _Unencodable()


def _leaf_paths(v, path=()):
    if isinstance(v, dict) and v:
        for k in v:
            yield from _leaf_paths(v[k], path + (k,))
    elif isinstance(v, list) and v:
        for i, x in enumerate(v):
            yield from _leaf_paths(x, path + (i,))
    else:
        yield path


def _replace_at(v, path, new):
    if not path:
        return new
    if isinstance(v, dict):
        return {**v, path[0]: _replace_at(v[path[0]], path[1:], new)}
    return v[: path[0]] + [_replace_at(v[path[0]], path[1:], new)] + v[path[0] + 1 :]


def poisoned_variants(v, limit=8):
    """v with ONE leaf at a time (every position, at most `limit`) replaced by an object no field can encode: the failure then comes at
    every depth, after every number of members already written."""
    paths = list(_leaf_paths(v))
    if len(paths) > limit:
        step = len(paths) / limit
        paths = [paths[int(i * step)] for i in range(limit - 1)] + [paths[-1]]
    return [_replace_at(v, p, _Unencodable()) for p in paths if p]


def _reorder(v):
    """The same value with the keys of every dict inserted in reverse order."""
    if isinstance(v, dict):
        return {k: _reorder(x) for k, x in reversed(list(v.items()))}
    if isinstance(v, list):
        return [_reorder(x) for x in v]
    return v


def check_case(case, R: engine.Acc):
    if case.get("kind") == "call-history":
        return H.check_history_codec(case["label"], R, 'codec-depends-on-earlier-calls', 'serialize / deserialize use the layout of the type as read in THIS call')
    if "alias" in case:
        return check_alias(case, R)
    desc = case["desc"]
    only = case.get("value_index")
    t = T.build(desc)
    T.spoil_accessors(t)  # a caller that modifies the lists the accessors hand out changes nothing
    vals = V.values(desc, cap=case.get("cap", 24))
    sub = has_subbyte(desc)
    # the implementation's own numerical expansion, when small (membership oracle)
    try:
        E = L.lengths(desc[1] if desc[0] == "delim" else desc)
        exp_inner = set(t.inner_type.bit_length_set) if len(E) <= 300 else None
    except L.TooBig:
        exp_inner = None
    exp_outer = None
    if desc[0] == "delim":
        try:
            Eo = L.lengths(desc)
            exp_outer = set(t.bit_length_set) if len(Eo) <= 300 else None
        except L.TooBig:
            pass
    for vi, v in enumerate(vals):
        if only is not None and vi != only:
            continue
        one = {"desc": desc, "cap": case.get("cap", 24), "value_index": vi, "value": repr(v)}
        try:
            trace: list = []
            want = C.encode(desc, v, trace=trace)
            cv = C.canon(desc, v)
        except C.BadValue:
            R.counters["bad_value_skipped"] += 1
            continue
        R.case([desc, repr(v)], nontrivial=(len(want) >= 2 or sub), sample=(vi == 3 and len(desc[1]) == 3 and desc[0] == "struct"))
        R.counters["reference_traces"] += 1
        V_ = lambda fp, clause, obs, exp: R.violation(fp, clause, one, observed=obs, expected=exp)  # noqa: E731
        if vi % 2 == 0:
            # a FAILED call first: the same value with its last leaf replaced by something that cannot be encoded (the failure comes
            # after the leading members were written, possibly deep inside nested delimited objects) - whatever it leaves behind
            # must not reach the next call
            for pv in poisoned_variants(v):
                try:
                    pydsdl.serialize(t, pv)
                    R.counters["poisoned_value_accepted"] += 1
                except Exception:  # noqa
                    R.counters["failed_calls_before_valid_ones"] += 1
                try:
                    if pydsdl.serialize(t, v) != want:
                        V_("wire-bytes-after-a-failed-call", "serialize produces exactly the Specification's encoding, whatever call failed before", {"failed": repr(pv)[:200]}, want.hex())
                        break
                except Exception:  # noqa (reported by the main comparison below)
                    break
        try:
            got = pydsdl.serialize(t, v)
        except Exception as ex:  # noqa
            R.outcome("serialize-raised")
            V_("serialize-raised:" + type(ex).__name__, "serialize accepts every valid value", repr(ex)[:300], want.hex())
            continue
        if got != want:
            R.outcome("bytes-differ")
            V_("wire-bytes-" + desc[0], "serialize produces exactly the Specification's encoding", got.hex(), want.hex())
            continue
        R.outcome("bytes-equal")
        if not length_in_set(len(got) * 8, t.inner_type.bit_length_set, exp_inner):
            V_("length-not-in-bit-length-set", "the bit length of the representation is an element of bit_length_set", len(got) * 8, sorted(exp_inner)[:30] if exp_inner else "analytic")
        try:
            back = pydsdl.deserialize(t, got)
        except Exception as ex:  # noqa
            V_("deserialize-raised:" + type(ex).__name__, "deserialize(serialize(v)) returns v", repr(ex)[:300], repr(cv))
            continue
        if not C.same(back, cv):
            V_("roundtrip-" + desc[0], "deserialize(serialize(v)) returns v (after the cast mode / defaults)", repr(back)[:400], repr(cv)[:400])
        # a dict is a mapping: the order in which the caller inserted the keys (at any nesting level) is not part of the value
        ov = _reorder(v)
        if repr(ov) != repr(v):
            R.counters["reordered"] += 1
            try:
                ogot = pydsdl.serialize(t, ov)
                if ogot != want:
                    V_("bytes-depend-on-key-order", "serialize produces exactly the Specification's encoding, whatever the insertion order of the dict keys", {"value": repr(ov)[:300], "bytes": ogot.hex()}, want.hex())
            except Exception as ex:  # noqa
                V_("reordered-dict-raised:" + type(ex).__name__, "serialize accepts every valid value", {"value": repr(ov)[:300], "error": repr(ex)[:200]}, want.hex())
        # relaxed spelling
        rv = V.relax(desc, v)
        if repr(rv) != repr(v):
            R.counters["relaxed"] += 1
            try:
                rgot = pydsdl.serialize(t, rv, relaxed=True)
                if rgot != want:
                    V_("relaxed-bytes-differ", "relaxed input forms encode to the same bytes as the dict form", {"relaxed": repr(rv)[:300], "bytes": rgot.hex()}, want.hex())
            except Exception as ex:  # noqa
                V_("relaxed-raised:" + type(ex).__name__, "relaxed input forms are accepted", {"relaxed": repr(rv)[:300], "error": repr(ex)[:200]}, want.hex())
        # strict value through relaxed=True must not change anything either
        if vi % 4 == 0:
            try:
                if pydsdl.serialize(t, v, relaxed=True) != want:
                    V_("relaxed-changes-strict", "relaxed=True leaves the explicit dict form unchanged", "differs", want.hex())
            except Exception as ex:  # noqa
                V_("relaxed-raised-on-strict:" + type(ex).__name__, "relaxed=True accepts the explicit dict form", repr(ex)[:200], want.hex())
        # with the top-level delimiter header
        if desc[0] == "delim":
            R.counters["with_header"] += 1
            wanth = C.encode(desc, v, with_header=True)
            goth = pydsdl.serialize(t, v, with_delimiter_header=True)
            if goth != wanth:
                V_("wire-bytes-with-header", "delimiter header = byte length of the nested object", goth.hex(), wanth.hex())
            else:
                if not length_in_set(len(goth) * 8, t.bit_length_set, exp_outer):
                    V_("length-with-header-not-in-bit-length-set", "header + payload length is an element of the delimited bit_length_set", len(goth) * 8, "set")
                backh = pydsdl.deserialize(t, goth, with_delimiter_header=True)
                if not C.same(backh, cv):
                    V_("roundtrip-with-header", "round trip with the delimiter header", repr(backh)[:300], repr(cv)[:300])


def worker_init():
    assert C.selfcheck() > 1000


def finish(tier, M):
    if not M.hist.get("bytes-equal") or not M.counters.get("relaxed") or not M.counters.get("with_header"):
        raise engine.Vacuous("nothing compared: %r %r" % (dict(M.hist), dict(M.counters)))
    return {
        "bounds": "widths %s; capacities 1..3 (+255/256); <=3 fields; nesting depth %d; value alphabet capped at %d per type (caps are one-at-a-time variations, see gen/values.py)" % ("W_quick" if tier == "quick" else "1..64", 2 if tier == "quick" else 3, 24 if tier == "quick" else 48),
        "traces_validated_against_impl": M.counters.get("reference_traces", 0),
    }
