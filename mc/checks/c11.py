"""
C11 - Port-ID and minor-version consistency rules hold for every set of definitions.

Every unordered pair (thorough: every triple over a sub-alphabet) of definition symbols
(name x version x kind x port-ID x layout), placed entirely in the target namespace, with one member in a lookup root
and referenced (transitive), or present in a lookup root but unreferenced; accepted iff the cross-definition predicate holds.
"""
from __future__ import annotations

import itertools

from .. import api, engine

ID = "C11"
LEVEL = "exploration"
DESIGN_REF = "DESIGN.md 4/C11"
RULE = (
    "symbol = name {r.A, r.B} x version {0.1, 0.2, 1.0, 1.1, 2.0} x kind {message, service} x fixed port-ID {none, p, q} x layout "
    "{sealed, extent 64 bytes, extent 128 bytes} (180 symbols; thorough: services with independent request / response layouts, 300 "
    "symbols); case = (set of symbols with distinct identities, placement): every unordered pair (14,580) in placement 'all targets', "
    "pairs whose second member is a message additionally in placements 'in a lookup root and referenced' and 'in a lookup root, "
    "unreferenced'; thorough: every triple over a 60-symbol sub-alphabet. Non-trivial iff two members share a name or a port-ID; "
    "distinct by canonical hash of (symbols, placement)"
)
ASSUMPTIONS = [
    "cross(defs) below is the statement of C11: the port-ID clause ranges over the definitions read directly, the minor-version clause over direct and transitive ones",
    "port-IDs are regulated vendor values (6200/6201 subjects, 300/301 services) so that the single-definition rules of C05 never interfere",
]

NAMES = ["r.A", "r.B"]
VERSIONS = [[0, 1], [0, 2], [1, 0], [1, 1], [2, 0]]
KINDS = ["message", "service"]
PORTS = [None, 0, 1]  # index into the kind's port table
LAYOUTS = ["sealed", "e64", "e128"]
PORT_TABLE = {"message": [6200, 6201], "service": [300, 301]}


def symbols(tier):
    out = []
    for n, v, k, p, l in itertools.product(NAMES, VERSIONS, KINDS, PORTS, LAYOUTS):
        out.append({"name": n, "ver": v, "kind": k, "port": None if p is None else PORT_TABLE[k][p], "layout": [l, l]})
    if tier != "quick":
        for n, v, p in itertools.product(NAMES, VERSIONS, PORTS):
            for l1, l2 in itertools.product(LAYOUTS, repeat=2):
                if l1 != l2:
                    out.append({"name": n, "ver": v, "kind": "service", "port": None if p is None else PORT_TABLE["service"][p], "layout": [l1, l2]})
    return out


def mode_line(l):
    return {"sealed": "@sealed", "e64": "@extent 64 * 8", "e128": "@extent 128 * 8"}[l]


def text_of(s):
    body = "uint8 a\nuint8 K = 1\n"
    if s["kind"] == "message":
        return body + mode_line(s["layout"][0]) + "\n"
    return body + mode_line(s["layout"][0]) + "\n---\n" + body + mode_line(s["layout"][1]) + "\n"


def file_of(s, root="r"):
    short = s["name"].split(".")[-1]
    return "%s/%s%s.%d.%d.dsdl" % (root, "" if s["port"] is None else "%d." % s["port"], short, s["ver"][0], s["ver"][1])


def extent_of(l):
    return {"sealed": 8, "e64": 512, "e128": 1024}[l]


def cross(direct, transitive):
    """True iff the set obeys the cross-definition rules of C11."""
    for a, b in itertools.combinations(direct, 2):
        if a["kind"] == b["kind"] and a["port"] is not None and a["port"] == b["port"]:
            same_name = a["name"] == b["name"]
            if not same_name:
                return False
            if a["ver"][0] != b["ver"][0] and a["ver"][0] > 0 and b["ver"][0] > 0:
                return False
    allv = direct + transitive
    for a, b in itertools.combinations(allv, 2):
        if a["name"] != b["name"] or a["ver"][0] != b["ver"][0]:
            continue
        if a["kind"] != b["kind"]:
            return False
        if (a["port"] is None) == (b["port"] is None):
            if a["port"] != b["port"]:
                return False
        else:
            newer = a if a["ver"][1] > b["ver"][1] else b
            if newer["port"] is None:
                return False
        if a["ver"][0] >= 1:
            parts = [0, 1] if a["kind"] == "service" else [0]
            for i in parts:
                if extent_of(a["layout"][i]) != extent_of(b["layout"][i]):
                    return False
                if (a["layout"][i] == "sealed") != (b["layout"][i] == "sealed"):
                    return False
    return True


def plan(tier):
    parts = 48 if tier == "quick" else 128
    shards = [{"kind": "pairs", "part": p, "parts": parts} for p in range(parts)]
    if tier != "quick":
        shards += [{"kind": "triples", "part": p, "parts": 128} for p in range(128)]
    return shards


def sub_alphabet(tier):
    syms = symbols("quick")
    return [s for s in syms if s["ver"] in ([0, 1], [1, 0], [1, 1], [2, 0]) and s["layout"][0] != "e128" and not (s["port"] is not None and s["port"] in (6201, 301) and s["name"] == "r.B")][:60]


def cases(shard, tier):
    if shard["kind"] == "pairs":
        syms = symbols(tier)
        i = 0
        for a, b in itertools.combinations(range(len(syms)), 2):
            if (syms[a]["name"], syms[a]["ver"]) == (syms[b]["name"], syms[b]["ver"]):
                continue
            if i % shard["parts"] == shard["part"]:
                yield {"symbols": [syms[a], syms[b]], "tier": tier}
            i += 1
    else:
        syms = sub_alphabet(tier)
        i = 0
        for t in itertools.combinations(range(len(syms)), 3):
            ids = {(syms[x]["name"], tuple(syms[x]["ver"])) for x in t}
            if len(ids) < 3:
                continue
            if i % shard["parts"] == shard["part"]:
                yield {"symbols": [syms[x] for x in t], "tier": tier, "placements": ["targets"]}
            i += 1


def check_case(case, R: engine.Acc):
    S = case["symbols"]
    placements = case.get("placements") or (["targets", "lookup-referenced", "lookup-unreferenced"] if S[-1]["kind"] == "message" else ["targets"])
    share = any(a["name"] == b["name"] or (a["port"] is not None and a["port"] == b["port"]) for a, b in itertools.combinations(S, 2))
    for pl in placements:
        files = {}
        if pl == "targets":
            for s in S:
                files[file_of(s)] = text_of(s)
            direct, transitive = list(S), []
            lookups = []
        else:
            for s in S[:-1]:
                files[file_of(s)] = text_of(s)
            last = S[-1]
            files[file_of(last, "q/r")] = text_of(last)
            lookups = ["q/r"]
            if pl == "lookup-referenced":
                files["r/Ref.1.0.dsdl"] = "%s.%d.%d x\n@sealed\n" % (last["name"], last["ver"][0], last["ver"][1])
                direct, transitive = list(S[:-1]), [last]
            else:
                files["r/Ref.1.0.dsdl"] = "uint8 x\n@sealed\n"
                direct, transitive = list(S[:-1]), []
        exp_ok = cross(direct, transitive)
        one = {"symbols": S, "tier": case.get("tier", "quick"), "placements": [pl]}
        R.case([S, pl], nontrivial=share, sample=(share and not exp_ok and pl == "lookup-referenced" and len(R.samples) < 3))
        o = api.read_namespace_tree(files, "r", lookups)
        if o.error is not None and not o.error["ide"]:
            R.outcome("foreign-exception")
            R.violation("foreign-exception:%s@%s" % (o.error["cls"], o.error.get("culprit")), "violating sets are rejected with InvalidDefinitionError", one, observed=o.error)
            continue
        accepted = o.error is None
        if accepted == exp_ok:
            R.outcome(("accepted" if accepted else "rejected") + ":" + pl)
            continue
        if accepted:
            R.outcome("violating-set-accepted")
            R.violation("violating-set-accepted:" + why(direct, transitive) + ":" + pl, "every violating set is rejected", one, observed="accepted", expected="InvalidDefinitionError")
        else:
            R.outcome("conforming-set-rejected")
            R.violation("conforming-set-rejected:%s:%s" % (o.error["cls"], pl), "every conforming set is accepted", one, observed=o.error, expected="accepted")


def why(direct, transitive) -> str:
    """which clause the reference objects to (for fingerprints)"""
    for a, b in itertools.combinations(direct, 2):
        if a["kind"] == b["kind"] and a["port"] is not None and a["port"] == b["port"] and (a["name"] != b["name"] or (a["ver"][0] != b["ver"][0] and a["ver"][0] > 0 and b["ver"][0] > 0)):
            return "port-collision"
    for a, b in itertools.combinations(direct + transitive, 2):
        if a["name"] == b["name"] and a["ver"][0] == b["ver"][0]:
            if a["kind"] != b["kind"]:
                return "kind"
            if (a["port"] is None) == (b["port"] is None):
                if a["port"] != b["port"]:
                    return "port-changed"
            elif (a if a["ver"][1] > b["ver"][1] else b)["port"] is None:
                return "port-removed"
            if a["ver"][0] >= 1:
                return "extent-or-sealing"
    return "?"


def finish(tier, M):
    need = ["accepted:targets", "rejected:targets", "accepted:lookup-referenced", "rejected:lookup-referenced", "accepted:lookup-unreferenced"]
    miss = [n for n in need if not M.hist.get(n)]
    if miss:
        raise engine.Vacuous("outcome classes not seen: %s" % miss)
    return {"symbols": len(symbols(tier))}
