"""
C11 - Port-ID and minor-version consistency rules hold for every set of definitions.

Every unordered pair (thorough: every triple over a sub-alphabet) of definition symbols
(name x version x kind x port-ID x layout), placed entirely in the target namespace, with one member in a lookup root
and referenced (transitive), or present in a lookup root but unreferenced; accepted iff the cross-definition predicate holds.
"""
from __future__ import annotations

import itertools

from .. import api, engine
from .. import histories as H

ID = "C11"
LEVEL = "exploration"
DESIGN_REF = "DESIGN.md 4/C11"
RULE = (
    "symbol = name {r.A, r.B} x version {0.1, 0.2, 1.0, 1.1, 2.0} x kind {message, service} x fixed port-ID {none, p, q} x layout "
    "{sealed 1 byte, sealed 2 bytes, extent 64 bytes, extent 128 bytes} (240 symbols; thorough: services with independent request / response layouts, 300 "
    "symbols); case = (set of symbols with distinct identities, placement): every unordered pair in placement 'all targets', "
    "pairs whose second member is a message additionally in placements 'in a lookup root and referenced' and 'in a lookup root, "
    "unreferenced'; chains: every combination of three minor versions of one type (port-ID none/p x sealed/extent per version) x every split of the members between the target root and a referenced lookup root; 3..7 minor versions of one type with every pattern of port-ID presence, service / message port-IDs that differ by a power of two, every pair over the extreme port-ID values {none, 0, 1, 8191 / 511} with unregulated ports allowed; thorough: every triple over a 60-symbol sub-alphabet. Non-trivial iff two members share a name or a port-ID; "
    "distinct by canonical hash of (symbols, placement)"
)
ASSUMPTIONS = [
    "cross(defs) below is the statement of C11: the port-ID clause ranges over the definitions read directly, the minor-version clause over direct and transitive ones",
    "port-IDs are regulated vendor values (6200/6201 subjects, 300/301 services) so that the single-definition rules of C05 never interfere",
]

NAMES = ["r.A", "r.B"]
VERSIONS = [[0, 1], [0, 2], [1, 0], [1, 1], [2, 0]]
KINDS = ["message", "service"]
PORTS = [None, 0, 1]  # index into the kind's port table
LAYOUTS = ["sealed", "sealed16", "e64", "e128"]  # two sealed layouts of different size
PORT_TABLE = {"message": [6200, 6201], "service": [300, 301]}


def symbols(tier):
    out = []
    for n, v, k, p, l in itertools.product(NAMES, VERSIONS, KINDS, PORTS, LAYOUTS):
        out.append({"name": n, "ver": v, "kind": k, "port": None if p is None else PORT_TABLE[k][p], "layout": [l, l]})
    if tier != "quick":
        for n, v, p in itertools.product(NAMES, VERSIONS, PORTS):
            for l1, l2 in itertools.product(LAYOUTS, repeat=2):
                if l1 != l2:
                    out.append({"name": n, "ver": v, "kind": "service", "port": None if p is None else PORT_TABLE["service"][p], "layout": [l1, l2]})
    return out


def mode_line(l):
    return {"sealed": "@sealed", "sealed16": "uint8 b\n@sealed", "e64": "@extent 64 * 8", "e128": "@extent 128 * 8"}[l]


def text_of(s):
    body = "uint8 a\nuint8 K = 1\n"
    if s["kind"] == "message":
        return body + mode_line(s["layout"][0]) + "\n"
    return body + mode_line(s["layout"][0]) + "\n---\n" + body + mode_line(s["layout"][1]) + "\n"


def file_of(s, root="r"):
    short = s["name"].split(".")[-1]
    return "%s/%s%s.%d.%d.dsdl" % (root, "" if s["port"] is None else "%d." % s["port"], short, s["ver"][0], s["ver"][1])


def extent_of(l):
    return {"sealed": 8, "sealed16": 16, "e64": 512, "e128": 1024}[l]


def cross(direct, transitive):
    """True iff the set obeys the cross-definition rules of C11."""
    for a, b in itertools.combinations(direct, 2):
        if a["kind"] == b["kind"] and a["port"] is not None and a["port"] == b["port"]:
            same_name = a["name"] == b["name"]
            if not same_name:
                return False
            if a["ver"][0] != b["ver"][0] and a["ver"][0] > 0 and b["ver"][0] > 0:
                return False
    allv = direct + transitive
    for a, b in itertools.combinations(allv, 2):
        if a["name"] != b["name"] or a["ver"][0] != b["ver"][0]:
            continue
        if a["kind"] != b["kind"]:
            return False
        if (a["port"] is None) == (b["port"] is None):
            if a["port"] != b["port"]:
                return False
        else:
            newer = a if a["ver"][1] > b["ver"][1] else b
            if newer["port"] is None:
                return False
        if a["ver"][0] >= 1:
            parts = [0, 1] if a["kind"] == "service" else [0]
            for i in parts:
                if extent_of(a["layout"][i]) != extent_of(b["layout"][i]):
                    return False
                if a["layout"][i].startswith("sealed") != b["layout"][i].startswith("sealed"):
                    return False
    return True


def plan(tier):
    parts = 48 if tier == "quick" else 128
    shards = [{"kind": "pairs", "part": p, "parts": parts} for p in range(parts)]
    shards += [{"kind": "chains", "part": p, "parts": 8} for p in range(8)]
    shards += [{"kind": "port-triples", "part": p, "parts": 8} for p in range(8)]
    shards += [{"kind": "long-minors"}, {"kind": "scale"}]
    shards += [{"kind": "port-values", "part": p, "parts": 4} for p in range(4)]
    if tier != "quick":
        shards += [{"kind": "triples", "part": p, "parts": 128} for p in range(128)]
    shards += H.plan_shards(['minor-versions', 'minor-version-edits', 'legacy-repeats'])
    return shards


def sub_alphabet(tier):
    syms = symbols("quick")
    return [s for s in syms if s["ver"] in ([0, 1], [1, 0], [1, 1], [2, 0]) and s["layout"][0] != "e128" and not (s["port"] is not None and s["port"] in (6201, 301) and s["name"] == "r.B")][:60]


BYSTANDERS = [None, "r.AAA", "r.Zzz"]  # an unrelated target whose name sorts before / after the versioned type: must not matter


def chain_symbols():
    """three minor versions of one message type under one major: every choice of port-ID and layout per version"""
    per = []
    for v in ([1, 0], [1, 1], [1, 2]):
        per.append([{"name": "r.M", "ver": v, "kind": "message", "port": p, "layout": [l, l]} for p in (None, 6200) for l in ("sealed", "e64")])
    return per


def cases(shard, tier):
    if shard.get("kind") == "call-histories":
        yield from H.cases_of(shard)
        return
    if shard["kind"] == "chains":
        i = 0
        for combo in itertools.product(*chain_symbols()):
            # which members live in a same-named lookup root and are referenced from the newest target member
            for mask in range(0, 7):
                for by in BYSTANDERS:
                    if i % shard["parts"] == shard["part"]:
                        yield {"symbols": list(combo), "tier": tier, "chain_lookup_mask": mask, "bystander": by}
                    i += 1
        return
    if shard["kind"] == "port-triples":
        # three message definitions over two names: who may share a port-ID when it was added by a newer minor version
        syms = [{"name": n, "ver": v, "kind": "message", "port": p, "layout": ["sealed", "sealed"]} for n in NAMES for v in ([1, 0], [1, 1], [2, 0]) for p in (None, 6200, 6201)]
        i = 0
        for t in itertools.combinations(range(len(syms)), 3):
            if len({(syms[x]["name"], tuple(syms[x]["ver"])) for x in t}) < 3:
                continue
            if i % shard["parts"] == shard["part"]:
                yield {"symbols": [syms[x] for x in t], "tier": tier, "placements": ["targets"]}
            i += 1
        return
    if shard["kind"] == "port-values":
        # the extreme values of the port-ID ranges (0 is falsy, 8191 / 511 are the last valid ones), unregulated ports allowed
        i = 0
        for kind, ports in (("message", [0, 1, 8191]), ("service", [0, 1, 511])):
            syms = [{"name": n, "ver": v, "kind": kind, "port": p, "layout": ["sealed", "sealed"]} for n in NAMES for v in ([0, 1], [1, 0], [1, 1], [2, 0]) for p in [None] + ports]
            for a, b in itertools.combinations(range(len(syms)), 2):
                if (syms[a]["name"], syms[a]["ver"]) == (syms[b]["name"], syms[b]["ver"]):
                    continue
                if i % shard["parts"] == shard["part"]:
                    yield {"symbols": [syms[a], syms[b]], "tier": tier, "placements": ["targets"], "unregulated": True}
                i += 1
        return
    if shard["kind"] == "scale":
        # beyond three of everything: 3..7 minor versions of one type (numbers of different digit counts), port-ID present / absent /
        # changed per version; services and messages whose port-IDs differ by a power of two
        mk = lambda v, p, kind="message": {"name": "r.A", "ver": v, "kind": kind, "port": p, "layout": ["sealed", "sealed"]}  # noqa: E731
        for minors in ((2, 3, 10), (9, 10, 11), (1, 9, 10), (2, 10, 100), (8, 9, 10, 11), (0, 1, 2, 3, 4)):
            for ports in itertools.product((None, 6200, 6201), repeat=len(minors)):
                if len(minors) >= 4 and 6201 in ports and ports.count(6201) > 1:
                    continue
                yield {"symbols": [mk([1, m], p) for m, p in zip(minors, ports)], "tier": tier, "placements": ["targets"]}
        for n in (5, 6, 7):
            for mask in range(1 << n):
                yield {"symbols": [mk([2, m], 6200 if mask >> m & 1 else None) for m in range(n)], "tier": tier, "placements": ["targets"]}
                if n == 5:
                    yield {"symbols": [mk([0, m + 1], 300 if mask >> m & 1 else None, "service") for m in range(n)], "tier": tier, "placements": ["targets"]}
        for sid in (0, 1, 255, 300, 511):
            for delta in (0, 256, 512, 1024, 2048, 4096):
                for mid in (sid + delta, sid + delta + 1):
                    if mid <= 8191:
                        yield {"symbols": [{"name": "r.S", "ver": [1, 0], "kind": "service", "port": sid, "layout": ["sealed", "sealed"]}, {"name": "r.M", "ver": [1, 0], "kind": "message", "port": mid, "layout": ["sealed", "sealed"]},
                                           {"name": "r.M2", "ver": [1, 0], "kind": "message", "port": 8191 - sid, "layout": ["sealed", "sealed"]}], "tier": tier, "placements": ["targets"], "unregulated": True}
        return
    if shard["kind"] == "long-minors":
        # minor versions whose decimal strings do not sort like the numbers (9 vs 10, 2 vs 10, 25 vs 100, 3 vs 255)
        for major in (0, 1):
            for m1, m2 in ((9, 10), (2, 10), (25, 100), (3, 255), (10, 11), (99, 100)):
                for p1, p2 in itertools.product((None, 6200, 6201), repeat=2):
                    for kind in KINDS:
                        pp = lambda p: None if p is None else PORT_TABLE[kind][p - 6200]  # noqa: E731
                        yield {"symbols": [{"name": "r.A", "ver": [major, m1], "kind": kind, "port": pp(p1), "layout": ["sealed", "sealed"]}, {"name": "r.A", "ver": [major, m2], "kind": kind, "port": pp(p2), "layout": ["sealed", "sealed"]}], "tier": tier, "placements": ["targets"]}
        return
    if shard["kind"] == "pairs":
        syms = symbols(tier)
        i = 0
        for a, b in itertools.combinations(range(len(syms)), 2):
            if (syms[a]["name"], syms[a]["ver"]) == (syms[b]["name"], syms[b]["ver"]):
                continue
            if i % shard["parts"] == shard["part"]:
                yield {"symbols": [syms[a], syms[b]], "tier": tier}
            i += 1
    else:
        syms = sub_alphabet(tier)
        i = 0
        for t in itertools.combinations(range(len(syms)), 3):
            ids = {(syms[x]["name"], tuple(syms[x]["ver"])) for x in t}
            if len(ids) < 3:
                continue
            if i % shard["parts"] == shard["part"]:
                yield {"symbols": [syms[x] for x in t], "tier": tier, "placements": ["targets"]}
            i += 1


def check_chain(case, R: engine.Acc):
    S = case["symbols"]
    mask = case["chain_lookup_mask"]
    in_lookup = [s for i, s in enumerate(S) if mask >> i & 1]
    targets = [s for i, s in enumerate(S) if not mask >> i & 1]
    files = {}
    referrer = targets[-1]  # the newest member that is a target refers to every lookup member
    for s in targets:
        t = text_of(s)
        if s is referrer and in_lookup:
            # referenced through a constant in an expression: the lookup member becomes transitive, the referrer's layout is unchanged
            t = "".join("@assert %s.%d.%d.K == 1\n" % (x["name"], x["ver"][0], x["ver"][1]) for x in in_lookup) + t
        files[file_of(s)] = t
    for s in in_lookup:
        files[file_of(s, "q/r")] = text_of(s)
    if case.get("bystander"):
        files["r/%s.1.0.dsdl" % case["bystander"].split(".")[-1]] = "uint8 unrelated\n@sealed\n"
    # the reference fields change the referrer's size: sealed layouts of the referrer then differ from its siblings
    direct = list(targets)
    transitive = list(in_lookup)
    exp_ok = cross_chain(direct, transitive)
    R.case([S, mask, case.get("bystander")], nontrivial=True, sample=(mask == 1 and not exp_ok and len(R.samples) < 3))
    o = api.read_namespace_tree(files, "r", ["q/r"] if in_lookup else [])
    one = dict(case)
    if o.error is not None and not o.error["ide"]:
        R.violation("foreign-exception:%s@%s" % (o.error["cls"], o.error.get("culprit")), "violating sets are rejected with InvalidDefinitionError", one, observed=o.error)
        return
    accepted = o.error is None
    if accepted == exp_ok:
        R.outcome(("accepted" if accepted else "rejected") + ":chain")
    elif accepted:
        R.violation("violating-set-accepted:chain:%s" % ("split" if in_lookup else "targets"), "every violating set is rejected (all pairs of minor versions, direct and transitive)", one, observed="accepted", expected="InvalidDefinitionError")
    else:
        R.violation("conforming-set-rejected:%s:chain" % o.error["cls"], "every conforming set is accepted", one, observed=o.error, expected="accepted")


def cross_chain(direct, transitive):
    def ext(s):
        return {"sealed-with-refs": -1}.get(s["layout"][0], None) if s["layout"][0] == "sealed-with-refs" else extent_of(s["layout"][0])

    allv = direct + transitive
    for a, b in itertools.combinations(allv, 2):
        if (a["port"] is None) == (b["port"] is None):
            if a["port"] != b["port"]:
                return False
        else:
            newer = a if a["ver"][1] > b["ver"][1] else b
            if newer["port"] is None:
                return False
        sa, sb = a["layout"][0].startswith("sealed"), b["layout"][0].startswith("sealed")
        if sa != sb or ext(a) != ext(b):
            return False
    # port collisions cannot occur: one name, one major
    return True


def check_case(case, R: engine.Acc):
    if case.get("kind") == "call-history":
        return H.check_history(case["label"], R, H.project_verdict, 'verdict-depends-on-earlier-calls', 'the cross-definition rules are applied to exactly the definitions read in THIS call')
    if "chain_lookup_mask" in case:
        return check_chain(case, R)
    S = case["symbols"]
    placements = case.get("placements") or (["targets", "lookup-referenced", "lookup-unreferenced"] if S[-1]["kind"] == "message" else ["targets"])
    share = any(a["name"] == b["name"] or (a["port"] is not None and a["port"] == b["port"]) for a, b in itertools.combinations(S, 2))
    for pl in placements:
        files = {}
        if pl == "targets":
            for s in S:
                files[file_of(s)] = text_of(s)
            direct, transitive = list(S), []
            lookups = []
        else:
            for s in S[:-1]:
                files[file_of(s)] = text_of(s)
            last = S[-1]
            files[file_of(last, "q/r")] = text_of(last)
            lookups = ["q/r"]
            if pl == "lookup-referenced":
                files["r/Ref.1.0.dsdl"] = "%s.%d.%d x\n@sealed\n" % (last["name"], last["ver"][0], last["ver"][1])
                direct, transitive = list(S[:-1]), [last]
            else:
                files["r/Ref.1.0.dsdl"] = "uint8 x\n@sealed\n"
                direct, transitive = list(S[:-1]), []
        exp_ok = cross(direct, transitive)
        one = {"symbols": S, "tier": case.get("tier", "quick"), "placements": [pl], "unregulated": bool(case.get("unregulated"))}
        R.case([S, pl], nontrivial=share, sample=(share and not exp_ok and pl == "lookup-referenced" and len(R.samples) < 3))
        o = api.read_namespace_tree(files, "r", lookups, allow_unregulated_fixed_port_id=bool(case.get("unregulated")))
        if o.error is not None and not o.error["ide"]:
            R.outcome("foreign-exception")
            R.violation("foreign-exception:%s@%s" % (o.error["cls"], o.error.get("culprit")), "violating sets are rejected with InvalidDefinitionError", one, observed=o.error)
            continue
        accepted = o.error is None
        if accepted == exp_ok:
            R.outcome(("accepted" if accepted else "rejected") + ":" + pl)
            continue
        if accepted:
            R.outcome("violating-set-accepted")
            R.violation("violating-set-accepted:" + why(direct, transitive) + ":" + pl, "every violating set is rejected", one, observed="accepted", expected="InvalidDefinitionError")
        else:
            R.outcome("conforming-set-rejected")
            R.violation("conforming-set-rejected:%s:%s" % (o.error["cls"], pl), "every conforming set is accepted", one, observed=o.error, expected="accepted")


def why(direct, transitive) -> str:
    """which clause the reference objects to (for fingerprints)"""
    for a, b in itertools.combinations(direct, 2):
        if a["kind"] == b["kind"] and a["port"] is not None and a["port"] == b["port"] and (a["name"] != b["name"] or (a["ver"][0] != b["ver"][0] and a["ver"][0] > 0 and b["ver"][0] > 0)):
            return "port-collision"
    for a, b in itertools.combinations(direct + transitive, 2):
        if a["name"] == b["name"] and a["ver"][0] == b["ver"][0]:
            if a["kind"] != b["kind"]:
                return "kind"
            if (a["port"] is None) == (b["port"] is None):
                if a["port"] != b["port"]:
                    return "port-changed"
            elif (a if a["ver"][1] > b["ver"][1] else b)["port"] is None:
                return "port-removed"
            if a["ver"][0] >= 1:
                return "extent-or-sealing"
    return "?"


def finish(tier, M):
    need = ["accepted:targets", "rejected:targets", "accepted:lookup-referenced", "rejected:lookup-referenced", "accepted:lookup-unreferenced", "accepted:chain", "rejected:chain"]
    miss = [n for n in need if not M.hist.get(n)]
    if miss:
        raise engine.Vacuous("outcome classes not seen: %s" % miss)
    return {"symbols": len(symbols(tier))}
