"""
C16 - Layout analysis is symbolic: cost does not grow with capacities or extents.

Definition templates instantiated with capacity / extent 2**e (e = 1..63, thorough also 2**e +- 1); every operation the
property lists is executed under a deterministic STEP COUNTER (sys.monitoring BRANCH/JUMP events inside pydsdl/, one per
Python-level loop iteration) instead of a wall clock.  Invariants: numerical expansion is never invoked, no residue set
larger than the queried divisor is produced, and the step count of every operation stays below a budget that does not
depend on e (and below a small multiple of the count observed for the smallest instances of the same template).
"""
from __future__ import annotations

import sys
import time

import pydsdl
from pydsdl import BitLengthSet

from .. import api, engine
from ..gen import types as T
from ..ref import layout as L

ID = "C16"
LEVEL = "exploration"
DESIGN_REF = "DESIGN.md 4/C16"
RULE = (
    "case = (template, exponent e, operation): 30 type templates (primitive / sub-byte / nested variable-length elements to depth 3, "
    "delimited with large extent, unions) with capacity or extent N = 2**e for every e in 1..63 (thorough: also 2**e-1 and 2**e+1), "
    "built through the constructors (a subset also read from DSDL text); operations: build, min, max, extent, fixed_length, "
    "is_aligned_at_byte of the type and of every field offset (min/max too), == and hash against an independently built twin, != against "
    "a neighbour capacity, == against primitives / small literal sets (both operand orders), and a sweep of `% d` over d in (3, 5, 7, 9, 12, 24, 40, 64) on one object followed by `% 24` of every field offset. Non-trivial iff e >= 7; distinct by canonical hash of (template, N, operation)"
)
ASSUMPTIONS = [
    "cost is measured in deterministic steps (Python-level loop iterations inside pydsdl/) plus a CPU-time backstop for C-level iterators; this shows boundedness on the enumerated family, not an asymptotic theorem",
    "_offset_ / _bit_length_ in DSDL expressions legitimately expand numerically (documented FIXME in the code) and are not part of the family",
]

STEP_BUDGET = 400000  # absolute, independent of e: a residue computation is at most 2d * d * d = 65k steps for d = 32
GROWTH_FACTOR = 4  # steps(e) <= GROWTH_FACTOR * max(steps(e') for e' <= 8) + 2000
CPU_BUDGET_S = 3.0
SWEEP = (3, 5, 7, 9, 12, 24, 40, 64)
SWEEP_BUDGET = 4 * sum(2 * d**3 for d in SWEEP)  # absolute, independent of e: each `% d` is at most 2d * d * d steps


def templates():
    b, u3, u8, u17 = ["bool"], ["uint", 3, "s"], ["uint", 8, "s"], ["uint", 17, "t"]
    vb7 = ["varr", b, 7]
    return {
        "varr-uint8": lambda n: ["struct", [["varr", u8, n]]],
        "varr-bool": lambda n: ["struct", [b, ["varr", b, n], u3]],
        "varr-uint3": lambda n: ["struct", [["varr", u3, n], b]],
        "farr-bool": lambda n: ["struct", [u3, ["farr", b, n], b]],
        "farr-uint17": lambda n: ["struct", [["farr", u17, n], u8]],
        "varr-of-varr-bool7": lambda n: ["struct", [["varr", vb7, n], b]],
        "farr-of-varr-bool7": lambda n: ["struct", [b, ["farr", vb7, n], b]],
        "farr-of-varr-bool15": lambda n: ["struct", [["farr", ["varr", b, 15], n]]],
        "varr3-of-varr-uint8": lambda n: ["struct", [["varr", ["varr", u8, n], 3], u3]],
        "varr-of-struct": lambda n: ["struct", [u3, ["varr", ["struct", [b, ["varr", u8, n]]], n], b]],
        "four-fields": lambda n: ["struct", [b, ["varr", u8, n], u3, ["varr", u17, n]]],
        "union": lambda n: ["union", [["varr", b, n], ["farr", u3, n], u17]],
        "delimited-extent": lambda n: ["delim", ["struct", [["varr", u8, 8], b]], 8 * max(n, 16)],
        "varr-of-delimited": lambda n: ["struct", [b, ["varr", ["delim", ["struct", [u3]], 8 * n], n], u3]],
        "delimited-middle": lambda n: ["struct", [u3, ["delim", ["struct", [b]], 8 * n], b, ["varr", b, n]]],
        "depth3": lambda n: ["struct", [["varr", ["struct", [b, ["varr", ["struct", [["varr", b, n], u3]], n]]], n]]],
        "union-of-nested": lambda n: ["union", [["struct", [["varr", vb7, n]]], ["varr", ["union", [b, ["varr", u3, n]]], n]]],
        "farr-of-farr": lambda n: ["struct", [b, ["farr", ["farr", u3, n], n]]],
        "delimited-union": lambda n: ["delim", ["union", [["varr", u17, n], b]], 8 * (8 + 3 * n)],
        "utf8-bytes": lambda n: ["struct", [["varr", ["utf8"], n], ["varr", ["byte"], n], b]],
        # long runs of unaligned variable-length fields: aggregation must stay pairwise (residue products bounded by divisor**2)
        "twelve-subbyte-arrays": lambda n: ["struct", [["varr", u3, n]] * 12],
        "twelve-mixed-arrays": lambda n: ["struct", [["varr", b, n], ["varr", u17, n], ["varr", u3, n], ["farr", b, 3]] * 3],
        "sixteen-variant-union": lambda n: ["union", [["varr", u3, n], ["varr", b, n], ["varr", u17, n], u8] * 4],
        # repetitions of BYTE-ALIGNED variable-length elements: few residues per divisor (multiples of 8), so a residue iteration that
        # only stops once every residue class was seen would run for the whole repetition count
        "farr-of-struct-varr8": lambda n: ["struct", [["farr", ["struct", [["varr", u8, 3]]], n]]],
        "farr-of-union-bytes": lambda n: ["struct", [b, ["farr", ["union", [u8, ["uint", 16, "s"]]], n], u3]],
        "farr-of-varr-uint16": lambda n: ["struct", [["farr", ["varr", ["uint", 16, "s"], 2], n], b]],
        "farr-of-delimited": lambda n: ["struct", [["farr", ["delim", ["struct", [u8]], 24], n]]],
        "varr-of-varr-uint16": lambda n: ["struct", [u3, ["varr", ["varr", ["uint", 16, "s"], 2], n]]],
        "farr-of-empty": lambda n: ["struct", [["farr", ["struct", []], n], ["varr", ["struct", []], n], b]],
        "struct-of-struct-runs": lambda n: ["struct", [["struct", [["varr", u3, n]] * 6], b, ["struct", [["varr", b, n]] * 6], u3]],
    }


# definitions given as TEXT: an intrinsic that was evaluated while the definition was still small must not make every later
# (huge) attribute expensive
TEXT_TEMPLATES = {
    "offset-asserted-early": lambda n: {"vns/T.1.0.dsdl": "uint8 header\n@assert _offset_ == {8}\nuint8[<=%d] big\nbool tail\nuint16[%d] more\n@sealed\n" % (n, n)},
    "offset-printed-early-service": lambda n: {"vns/T.1.0.dsdl": "bool a\n@print _offset_\nuint3[<=%d] big\n@sealed\n---\nuint8 h\n@assert _offset_.max == 8\nvns.E.1.0[<=%d] es\nuint8 z\n@extent %d\n" % (n, n, 64 * n + 64), "vns/E.1.0.dsdl": "uint16[<=2] x\n@sealed\n"},
    "offset-early-union": lambda n: {"vns/T.1.0.dsdl": "uint8 h\n@assert _offset_ %% 8 == {0}\nvns.U.1.0[%d] us\n@sealed\n" % n, "vns/U.1.0.dsdl": "@union\nuint8[<=3] a\nuint16 b\n@assert _offset_.count >= 1\n@sealed\n"},
    "extent-intrinsic-of-big-dependency": lambda n: {"vns/T.1.0.dsdl": "vns.B.1.0 b\n@assert vns.B.1.0._extent_ >= 8\n@extent vns.B.1.0._extent_ * 2 + 64\n", "vns/B.1.0.dsdl": "uint8[<=%d] big\nbool[%d] bits\n@sealed\n" % (n, n)},
}


# definitions that must be REJECTED, with the fault placed after (or next to) a huge attribute: the error path is analysed as
# symbolically as the success path (building the diagnostic must not enumerate the layout either)
REJECTED_TEMPLATES = {
    "failed-assert-after-big": lambda n: {"vns/T.1.0.dsdl": "uint8[<=%d] big\nuint16[%d] more\n@assert 1 == 2\n@sealed\n" % (n, n)},
    "failed-assert-in-response-after-big": lambda n: {"vns/T.1.0.dsdl": "bool[<=%d] big\n@sealed\n---\nvns.E.1.0[<=%d] es\n@assert false\n@sealed\n" % (n, n), "vns/E.1.0.dsdl": "uint8[<=2] x\n@sealed\n"},
    "duplicate-name-after-big": lambda n: {"vns/T.1.0.dsdl": "uint8[<=%d] big\nbool big\n@sealed\n" % n},
    "bad-type-after-big": lambda n: {"vns/T.1.0.dsdl": "vns.E.1.0[<=%d] es\nuint65 wide\n@sealed\n" % n, "vns/E.1.0.dsdl": "uint8[<=2] x\n@sealed\n"},
    "extent-too-small-for-big": lambda n: {"vns/T.1.0.dsdl": "vns.E.1.0[%d] es\n@extent 8\n" % n, "vns/E.1.0.dsdl": "uint8[<=2] x\n@sealed\n"},
    "unresolved-after-big": lambda n: {"vns/T.1.0.dsdl": "uint3[<=%d] big\nvns.Nope.1.0 x\n@sealed\n" % n},
    "missing-mode-after-big": lambda n: {"vns/T.1.0.dsdl": "@union\nuint8[<=%d] big\nvns.E.1.0[%d] es\n" % (n, n), "vns/E.1.0.dsdl": "uint8[<=2] x\n@sealed\n"},
}


class Counter:
    """Deterministic step counter based on sys.monitoring (Python 3.12)."""

    TOOL = 3

    def __init__(self, repo_prefix: str):
        self.prefix = repo_prefix
        self.steps = 0
        self.expands = 0
        self.big_sets: list = []
        self.max_expanded = 0
        self.mon = sys.monitoring
        self.active = False

    def _mine(self, code) -> bool:
        # the vendored parser (pydsdl/third_party) works on the text, whose length does not depend on the capacity
        return code.co_filename.startswith(self.prefix) and "/third_party/" not in code.co_filename

    def start(self):
        mon = self.mon
        E = mon.events
        try:
            mon.use_tool_id(self.TOOL, "verif-c16")
        except ValueError:
            pass

        def on_jump(code, _off, _dst):
            if not self._mine(code):
                return mon.DISABLE
            self.steps += 1

        def on_start(code, _off):
            if not self._mine(code):
                return mon.DISABLE
            if code.co_name == "expand" and code.co_filename.endswith("_symbolic.py"):
                # Expanding a leaf (e.g. iterating the small residue set returned by `%`) is not a numerical expansion
                # of a composed set; anything else is.
                me = sys._getframe(1).f_locals.get("self")
                if type(me).__name__ != "NullaryOperator":
                    self.expands += 1
                elif len(getattr(me, "_value", ())) > 64:
                    self.big_sets.append(("leaf", len(me._value)))

        def on_return(code, _off, retval):
            if not self._mine(code):
                return mon.DISABLE
            if code.co_name == "expand" and code.co_filename.endswith("_symbolic.py") and isinstance(retval, (set, frozenset)):
                self.max_expanded = max(self.max_expanded, len(retval))
            if code.co_name == "modulo" and code.co_filename.endswith("_symbolic.py") and isinstance(retval, (set, frozenset)):
                fr = sys._getframe(1)
                d = fr.f_locals.get("divisor")
                if isinstance(d, int) and len(retval) > d:
                    self.big_sets.append((d, len(retval)))

        mon.register_callback(self.TOOL, E.JUMP, on_jump)
        mon.register_callback(self.TOOL, E.BRANCH, on_jump)
        mon.register_callback(self.TOOL, E.PY_START, on_start)
        mon.register_callback(self.TOOL, E.PY_RETURN, on_return)
        mon.set_events(self.TOOL, E.JUMP | E.BRANCH | E.PY_START | E.PY_RETURN)
        self.active = True

    def stop(self):
        if self.active:
            self.mon.set_events(self.TOOL, 0)
            self.active = False

    def reset(self):
        self.steps = 0
        self.expands = 0
        self.big_sets = []
        self.max_expanded = 0


_counter: Counter | None = None


def worker_init():
    global _counter
    _counter = Counter(str(engine.REPO / "pydsdl"))
    _counter.start()


def measured(fn):
    assert _counter is not None
    _counter.reset()
    t0 = time.process_time()
    with engine.deadline(20):
        out = fn()
    cpu = time.process_time() - t0
    measured.max_expanded = _counter.max_expanded
    return out, _counter.steps, _counter.expands, list(_counter.big_sets), cpu


def operations(desc, other_desc):
    """[(name, thunk)] - each thunk performs one operation of the property on freshly built objects."""
    box: dict = {}

    def build():
        box["t"] = T.build(desc, cache={})
        return None

    def twin():
        box["twin"] = T.build(desc, cache={})
        box["other"] = T.build(other_desc, cache={})

    ops = [("build", build), ("build-twin", twin)]
    ops.append(("min-max-extent", lambda: (box["t"].bit_length_set.min, box["t"].bit_length_set.max, box["t"].extent, box["t"].bit_length_set.fixed_length, box["t"].inner_type.extent)))
    ops.append(("byte-alignment", lambda: box["t"].bit_length_set.is_aligned_at_byte()))

    def offsets():
        out = []
        for f, off in box["t"].iterate_fields_with_offsets():
            out.append((off.is_aligned_at_byte(), off.min, off.max, off.fixed_length))
        for f, off in box["t"].iterate_fields_with_offsets(BitLengthSet([0, 4, 8])):
            out.append(off.is_aligned_at_byte())
        return out

    ops.append(("field-offsets", offsets))
    ops.append(("equality", lambda: (box["t"] == box["twin"], box["twin"] == box["t"], box["t"] != box["twin"])))
    ops.append(("hash", lambda: hash(box["t"]) == hash(box["twin"])))
    ops.append(("inequality", lambda: box["t"] == box["other"]))

    def cross_class():
        # comparing a type (or its length set) with an object of ANOTHER class / a small literal set is an equality query as well
        t = box["t"]
        prims = [pydsdl.BooleanType(), pydsdl.UnsignedIntegerType(8, pydsdl.PrimitiveType.CastMode.SATURATED), pydsdl.VoidType(3), pydsdl.FloatType(32, pydsdl.PrimitiveType.CastMode.SATURATED)]
        out = []
        for p in prims:
            out += [t == p, p == t, t != p, t.bit_length_set == p.bit_length_set, p.bit_length_set == t.bit_length_set]
            for f in t.fields:
                out += [f.data_type == p, p == f.data_type, f.data_type.bit_length_set == p.bit_length_set]
        out += [t.bit_length_set == BitLengthSet(8), BitLengthSet([8, 16]) == t.bit_length_set, t.bit_length_set == BitLengthSet(t.bit_length_set.max) | BitLengthSet(t.bit_length_set.min)]
        return out

    ops.append(("cross-class-equality", cross_class))

    def fields_eq():
        return [a == b for a, b in zip(box["t"].fields, box["twin"].fields)] + [hash(a) == hash(b) for a, b in zip(box["t"].fields, box["twin"].fields)]

    ops.append(("field-equality", fields_eq))

    def sweep():
        # a sequence of queries with divisors that do not divide one another, on one object (solutions memoized for one divisor
        # must not make the next one more expensive); every result is a residue set, never larger than its divisor
        b = box["t"].bit_length_set
        out = []
        for d in SWEEP:
            r = b % d
            out.append(len(r) <= d)
        for _f, off in box["t"].iterate_fields_with_offsets():
            out.append(len(off % 24) <= 24)
        return all(out)

    ops.append(("modulo-sweep", sweep))
    return ops


def plan(tier):
    return [{"template": name} for name in templates()] + [{"template": name, "text": True} for name in ("varr-bool", "varr-of-struct", "delimited-extent", "depth3", "four-fields")] + [{"template": name, "text": True} for name in TEXT_TEMPLATES] + [{"template": name, "rejected": True} for name in REJECTED_TEMPLATES]


def cases(shard, tier):
    yield {"template": shard["template"], "text": shard.get("text", False), "tier": tier, **({"rejected": True} if shard.get("rejected") else {})}


def sizes(tier, e_only=None):
    out = []
    for e in range(1, 64):
        out.append((e, 2**e))
        if tier != "quick" and e >= 2:
            out.append((e, 2**e - 1))
            out.append((e, 2**e + 1))
    return out


def check_case(case, R: engine.Acc):
    name = case["template"]
    mk = templates().get(name)
    tier = case.get("tier", "quick")
    baseline: dict = {}
    todo = sizes(tier)
    if "n" in case:
        todo = [(e, n) for e, n in todo if n == case["n"] or e <= 8]
    for e, n in todo:
        if n > 2**63:
            continue
        if name in REJECTED_TEMPLATES:
            ops = [("read-rejected-definition", (lambda files=REJECTED_TEMPLATES[name](n): api.read_namespace_tree(files, "vns").error))]
            desc = other = None
        elif name in TEXT_TEMPLATES:
            ops = [("read-definition", (lambda files=TEXT_TEMPLATES[name](n): api.read_namespace_tree(files, "vns").error))]
            desc = other = None
        else:
            desc = mk(n)
            other = mk(n + 1 if n + 1 < 2**63 else n - 1)
        if name in TEXT_TEMPLATES or name in REJECTED_TEMPLATES:
            pass
        elif case.get("text"):
            ops = [("read-definition", (lambda d=desc: api.read_namespace_tree(T.to_files(d), "vns").error))]
        else:
            ops = operations(desc, other)
        failed = False
        for opname, thunk in ops:
            one = {"template": name, "text": case.get("text", False), "tier": tier, "n": n, "e": e, "op": opname}
            R.case([name, n, opname, case.get("text", False)], nontrivial=e >= 7, sample=(e == 40 and opname == "equality"))
            try:
                out, steps, expands, big, cpu = measured(thunk)
            except engine.CaseTimeout:
                R.outcome("timeout")
                R.violation("operation-does-not-terminate:%s" % opname, "the operation terminates in time independent of the capacity", one, observed="> 20 s")
                failed = True
                break
            if case.get("rejected") and (out is None or not out.get("ide")):
                R.violation("faulty-definition-not-rejected-cleanly", "harness: the template is an invalid definition and is rejected with InvalidDefinitionError", one, observed=out)
                failed = True
                break
            if case.get("text") and out is not None:
                R.violation("definition-rejected", "harness: the template is a valid definition", one, observed=out)
                failed = True
                break
            if opname in ("equality",) and out != (True, True, False):
                R.violation("twin-not-equal", "independently built twins are equal", one, observed=out)
            if opname == "modulo-sweep" and out is not True:
                R.violation("residue-set-larger-than-divisor:modulo-sweep", "no bit length set larger than the queried divisor is enumerated", one, observed=out)
            if opname == "hash" and out is not True:
                R.violation("twin-hash-differs", "independently built twins have equal hashes", one, observed=out)
            R.counters["steps_total"] += steps
            R.counters["max_steps"] = max(R.counters["max_steps"], steps)
            if name in TEXT_TEMPLATES:
                # an intrinsic evaluated on the still-small definition legitimately expands THAT small set (documented FIXME); what
                # must not happen is that anything whose size follows the capacity gets enumerated
                if e <= 8:
                    baseline["max_expanded"] = max(baseline.get("max_expanded", 0), measured.max_expanded)
                elif measured.max_expanded > max(64, 2 * baseline.get("max_expanded", 0)):
                    R.outcome("expanded")
                    R.violation("numerical-expansion-grows-with-capacity:%s" % opname, "no bit length set whose size follows the capacity is enumerated", one, observed={"largest_expanded_set": measured.max_expanded, "steps": steps}, expected={"largest_for_small_instances": baseline.get("max_expanded")})
                    failed = True
                    break
                expands = 0
            if expands:
                R.outcome("expanded")
                R.violation("numerical-expansion-invoked:%s" % opname, "types are analysed symbolically: no numerical expansion", one, observed={"expand_calls": expands, "steps": steps})
                failed = True
                break
            if big:
                R.violation("residue-set-larger-than-divisor:%s" % opname, "no bit length set larger than the queried divisor is enumerated", one, observed=big[:5])
                failed = True
                break
            if e <= 8:
                baseline[opname] = max(baseline.get(opname, 0), steps)
            budget = SWEEP_BUDGET if opname == "modulo-sweep" else STEP_BUDGET
            limit = min(budget, GROWTH_FACTOR * baseline.get(opname, budget) + 2000)
            if steps > limit or cpu > CPU_BUDGET_S:
                R.outcome("over-budget")
                R.violation("cost-grows-with-capacity:%s" % opname, "cost does not grow with capacities or extents", one, observed={"steps": steps, "cpu_s": round(cpu, 3)}, expected={"step_limit": limit, "baseline_small_instances": baseline.get(opname), "cpu_limit_s": CPU_BUDGET_S})
                failed = True
                break
            R.outcome("within-budget")
        if failed:
            break  # larger instances of a failing template would only take longer


def finish(tier, M):
    if not M.hist.get("within-budget"):
        raise engine.Vacuous("nothing measured")
    if M.counters.get("steps_total", 0) < 1000:
        raise engine.Vacuous("the step counter does not count (sys.monitoring inactive?)")
    return {"step_budget": STEP_BUDGET, "growth_factor": GROWTH_FACTOR, "max_steps_observed": M.counters.get("max_steps"), "templates": sorted(templates())}
