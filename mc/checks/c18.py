"""
C18 - Model objects are immutable values with a sound equality/hash/pickle contract.

A catalogue of descriptions (types, attributes, expression values, bit length sets), each built twice independently;
ALL ordered pairs are compared; every public list-returning accessor is mutated; every object is pickled.
"""
from __future__ import annotations

import sys
import subprocess
import os
import itertools
import pickle
import warnings
from fractions import Fraction
from pathlib import Path

import pydsdl
from pydsdl import BitLengthSet

from .. import dump, engine
from ..gen import types as T
from ..ref import bls as rbls
from ..ref import layout as L
from . import c01, c02

ID = "C18"
LEVEL = "exploration"
DESIGN_REF = "DESIGN.md 4/C18"
RULE = (
    "catalogue: every scalar/void of the width alphabet, arrays over them, structures <=2 fields and unions of 2 variants over "
    "the depth-1 field alphabet (+delimited, + a depth-2 slice, + service types), attributes (fields, paddings, constants with "
    "boundary values), expression values (rationals, booleans, strings incl. NFC-equivalent spellings, sets), bit length set "
    "operator trees of depth <=1 plus re-associated/commuted/duplicated spellings of equal sets. case = ordered pair (a, b) of "
    "catalogue entries of one category, each built by an independent construction call, plus per-object accessor-mutation and "
    "pickle cases. Non-trivial iff the two objects come from different build calls (always true here; identical descriptions are "
    "built twice); distinct by canonical hash of (category, description a, description b)"
)
ASSUMPTIONS = [
    "two types are required to be unequal iff class, normalized string or reference bit length set differ (C18 statement); nothing is required of other pairs except symmetry and hash consistency",
    "BitLengthSet: pairs that differ as sets but compare equal are counted (allowed approximation), never failed",
]


# ------------------------------------------------------------------------------------------------ catalogue
# Distinct bodies that all carry the name vns.Item.1.0 (one of them 1.1), wherever they are nested
ITEMS = [["union", [["uint", 24, "s"], ["uint", 56, "s"]]], ["struct", [["uint", 64, "s"], ["void", 0 + 1], ["void", 7]]], ["struct", [["uint", 32, "s"], ["varr", ["uint", 32, "s"], 1]]], ["union", [["uint", 24, "t"], ["uint", 56, "t"]]]]
for _i, _d in enumerate(ITEMS):
    T.NAME_OVERRIDES[T.key(_d)] = ("Item", (1, 1) if _i == 3 else (1, 0))
def type_catalogue(tier):
    ws = [1, 2, 3, 8, 9, 16, 64] if tier == "quick" else T.W_QUICK
    cat = []
    sc = T.scalars(ws) + [["void", n] for n in (1, 8, 9)] + [["byte"], ["utf8"]]
    cat += sc
    cat += T.arrays_over([["bool"], ["uint", 8, "s"], ["uint", 8, "t"], ["int", 8], ["byte"], ["utf8"], ["float", 16, "s"]], (1, 2, 8), (1, 2, 8))
    comps = list(T.structs(T.F1[:8], 2)) + list(T.unions(T.F1[:5], 2))
    cat += comps
    cat += [["delim", d, -(-L.tmax(d) // 8) * 8 + e] for d in comps[:40] for e in (0, 8)]
    cat += [d for i, d in enumerate(c02.family("depth2s", tier)) if i % (997 if tier == "quick" else 199) == 0]
    cat += [["farr", d, 2] for d in comps[:6]] + [["varr", d, 2] for d in comps[:6]]
    # unions / structures whose first member is itself composed (struct, array) and whose other members add residues
    for first in (["struct", [["uint", 32, "s"]]], ["varr", ["uint", 16, "s"], 2], ["farr", ["uint", 3, "s"], 3], ["struct", [["varr", ["bool"], 3]]]):
        for second in (["uint", 8, "s"], ["bool"], ["uint", 17, "t"]):
            cat.append(["union", [first, second]])
            cat.append(["struct", [first, second]])
            cat.append(["delim", ["union", [first, second]], 128])
    # one name and one layout under versions that coincide when the numbers are folded (major * 100 + minor) or their digits run together
    for v in ([1, 0], [1, 1], [1, 10], [11, 0], [1, 100], [2, 0], [0, 200], [1, 155], [2, 55], [25, 5], [0, 1], [0, 10], [0, 100]):
        cat.append(["named", ["struct", [["uint", 8, "s"]]], "Versioned", v])
    cat.append(["named", ["struct", [["int", 8]]], "Versioned", [1, 0]])
    cat.append(["named", ["union", [["uint", 8, "s"], ["bool"]]], "Versioned", [2, 0]])
    # same-named, same-version composites with different bodies whose CONTAINERS the approximate equality cannot tell apart
    # (variable-length arrays: the sets agree in min, max and residues mod 32 although the element sets differ even in their minimum)
    for it in ITEMS:
        cat += [it, ["varr", it, 2], ["varr", it, 4], ["farr", it, 2], ["struct", [["varr", it, 2], ["bool"]]], ["union", [["varr", it, 2], ["bool"]]]]
    # variable-length arrays of composed elements with capacities at and beyond the divisor the approximate equality uses (32)
    for e in (["struct", [["uint", 8, "s"]]], ["varr", ["uint", 8, "s"], 2], ["union", [["bool"], ["uint", 16, "s"]]]):
        for c in (31, 32, 33, 64, 255, 1000):
            cat.append(["struct", [["varr", e, c], ["bool"]]])
    return cat


def attr_catalogue():
    out = []
    for tdesc in (["bool"], ["uint", 8, "s"], ["uint", 8, "t"], ["int", 8], ["float", 32, "s"], ["varr", ["uint", 8, "s"], 2], ["struct", [["bool"]]]):
        for name in ("a", "b"):
            out.append(["field", tdesc, name])
    for n in (1, 8, 9):
        out.append(["pad", ["void", n]])
    for tdesc, vals in ((["uint", 8, "s"], [0, 1, 255, "a"]), (["int", 8], [-128, 0, 1]), (["float", 32, "s"], [0, 1, [1, 2], [1, 3]]), (["bool"], [True, False]), (["uint", 8, "t"], [1])):
        for v in vals:
            for name in ("A", "B"):
                out.append(["const", tdesc, name, v])
    return out


def value_catalogue():
    out = []
    for q in (0, 1, -1, [1, 2], [2, 4], [1, 3], 10**30, [10**30 + 1, 10**30]):
        out.append(["q", q])
    out += [["bool", True], ["bool", False]]
    for s in ("", "a", "b", "é", "é", "ab"):
        out.append(["str", s])
    out += [["set", [["q", 1]]], ["set", [["q", 1], ["q", 2]]], ["set", [["q", 2], ["q", 1]]], ["set", [["str", "a"]]], ["set", [["bool", True]]], ["set", [["q", [2, 2]], ["q", 2]]]]
    out += [["set", [["set", [["q", 1]]]]]]
    # sets of 9..20 elements whose members collide in a hash table (multiples of 8), constructed in different orders
    for n in (8, 9, 12, 20):
        els = [["q", 8 * i] for i in range(n)]
        out += [["set", els], ["set", list(reversed(els))], ["set", els[::2] + els[1::2]], ["set", els[n // 2 :] + els[: n // 2]], ["set", els + els[:3]]]
    return out


def bls_catalogue(tier):
    trees = list(c01.trees(0)) + [t for i, t in enumerate(c01.trees(1)) if max_count_ok(t)]
    l = lambda v: ["leaf", v]  # noqa: E731
    a, b, c = l([1, 2]), l([3, 7]), l([8, 12, 16])
    trees += [
        ["cat", [a, b]], ["cat", [b, a]], ["cat", [["cat", [a, b]], c]], ["cat", [a, ["cat", [b, c]]]],
        ["rep", a, 2], ["cat", [a, a]], ["uni", [a, a, b]], ["uni", [a, b]], ["uni", [b, a]],
        ["pad", ["pad", c, 8], 8], ["pad", c, 8], ["rng", a, 1], ["uni", [l([0]), a]],
        ["rep", c, 3], ["cat", [c, c, c]], ["pad", ["rep", l([1]), 8], 8], l([8]), ["rep", l([8]), 1],
        l([0, 32]), l([0, 16, 32]), l([0, 8, 16, 24, 32]), ["rng", l([8]), 4],  # same min/max, differing residues
        l([0, 64]), l([0, 32, 64]),  # equal (min, max, residues mod 32): allowed approximation
    ]
    seen, out = set(), []
    for t in trees:
        k = engine.canon(t)
        if k not in seen:
            seen.add(k)
            out.append(t)
    return out


def max_count_ok(t):
    return c01.max_count(t) <= 5


CATEGORIES = ["type", "attr", "value", "bls"]


_cat_cache: dict = {}
_second_builds: dict = {}


def catalogue(cat, tier):
    k = (cat, tier)
    if k not in _cat_cache:
        _cat_cache[k] = _catalogue(cat, tier)
    return _cat_cache[k]


def second_builds(cat, tier):
    """One object per catalogue entry, built by construction calls that are independent of every row object."""
    k = (cat, tier)
    if k not in _second_builds:
        _second_builds[k] = [make(cat, d) for d in catalogue(cat, tier)]
    return _second_builds[k]


def _catalogue(cat, tier):
    if cat == "type":
        return type_catalogue(tier)
    if cat == "attr":
        return attr_catalogue()
    if cat == "value":
        return value_catalogue()
    return bls_catalogue(tier)


# ------------------------------------------------------------------------------------------------ construction
def make_value(d):
    k = d[0]
    if k == "q":
        q = d[1]
        return pydsdl.Rational(Fraction(q[0], q[1]) if isinstance(q, list) else q)
    if k == "bool":
        return pydsdl.Boolean(d[1])
    if k == "str":
        return pydsdl.String(d[1])
    if k == "set":
        return pydsdl.Set([make_value(x) for x in d[1]])
    raise ValueError(d)


def make(cat, d):
    """A fresh, independently constructed object (no shared sub-objects with any other call)."""
    if cat == "type":
        if d[0] == "named":  # ["named", composite desc, short name, [major, minor]]
            return T.build_named(d[1], d[2], tuple(d[3]))
        return T.build(d, cache={})
    if cat == "attr":
        if d[0] == "field":
            return pydsdl.Field(T.build(d[1], cache={}), d[2])
        if d[0] == "pad":
            return pydsdl.PaddingField(T.build(d[1]))
        v = d[3]
        val = pydsdl.Boolean(v) if isinstance(v, bool) else (pydsdl.String(v) if isinstance(v, str) else pydsdl.Rational(Fraction(v[0], v[1]) if isinstance(v, list) else v))
        return pydsdl.Constant(T.build(d[1], cache={}), d[2], val)
    if cat == "value":
        return make_value(d)
    return c01.build(d)


def obs(cat, x):
    if cat == "type":
        return dump.dtype(x)
    if cat == "attr":
        return dump.attribute(x)
    if cat == "value":
        return dump.value(x)
    return {"min": x.min, "max": x.max, "set": sorted(x)}


def must_differ(cat, da, db, a, b) -> bool | None:
    """True: the property requires a != b. False: requires a == b. None: no requirement."""
    if da == db:
        return False
    if cat == "type":
        if type(a) is not type(b) or str(a) != str(b):
            return True
        ea, eb = L.lengths(da[1] if da[0] == "named" else da), L.lengths(db[1] if db[0] == "named" else db)
        if ea == eb:
            return None
        if min(ea) != min(eb) or max(ea) != max(eb):
            return True
        # The sets differ but share their extremes: BitLengthSet equality "may only err towards equality", and the equality of
        # types follows it - inequality is required exactly when the implementation's own set comparison tells the sets apart
        return True if a.bit_length_set != b.bit_length_set else None
    if cat == "attr":
        if da[0] != db[0]:
            return True  # field vs padding vs constant
        if da[1] != db[1] or (da[0] != "pad" and da[2] != db[2]):
            return True
        if da[0] == "const":
            va, vb = dump.value(a.value), dump.value(b.value)
            return True if va != vb else False
        return None
    if cat == "value":
        return dump.value(a) != dump.value(b)
    ea, eb = rbls.expand(da), rbls.expand(db)
    if ea == eb:
        return False
    if (min(ea), max(ea)) != (min(eb), max(eb)):
        return True
    return None  # differ as sets with equal extremes: approximation allowed


def plan(tier):
    shards = []
    for cat in CATEGORIES:
        parts = 16 if cat == "type" else (8 if cat == "bls" else 1)
        for p in range(parts):
            shards.append({"kind": "pairs", "cat": cat, "part": p, "parts": parts})
        shards.append({"kind": "objects", "cat": cat})
    shards.append({"kind": "services"})
    shards.append({"kind": "copies"})
    for cat in CATEGORIES:
        for seed in (1, 4242):
            shards.append({"kind": "xproc", "cat": cat, "seed": seed})
    return shards


def cases(shard, tier):
    if shard["kind"] == "pairs":
        c = catalogue(shard["cat"], tier)
        for i in range(len(c)):
            if i % shard["parts"] == shard["part"]:
                yield {"kind": "row", "cat": shard["cat"], "i": i, "tier": tier}
    elif shard["kind"] == "objects":
        c = catalogue(shard["cat"], tier)
        for i in range(len(c)):
            yield {"kind": "object", "cat": shard["cat"], "i": i, "tier": tier}
    elif shard["kind"] == "xproc":
        yield {"kind": "xproc", "cat": shard["cat"], "seed": shard["seed"], "tier": tier}
    elif shard["kind"] == "copies":
        for i in range(len(rich_composites())):
            for how in COPY_METHODS:
                yield {"kind": "copy", "i": i, "how": how}
    else:
        yield {"kind": "services"}


def safe_eq(a, b):
    try:
        return bool(a == b), None
    except Exception as ex:  # noqa
        return None, repr(ex)[:200]


def check_row(case, R):
    cat, tier, i = case["cat"], case["tier"], case["i"]
    c = catalogue(cat, tier)
    da = c[i]
    a = make(cat, da)
    js = [case["j"]] if "j" in case else range(len(c))
    for j in js:
        db = c[j]
        b = second_builds(cat, tier)[j]
        one = {"kind": "row", "cat": cat, "tier": tier, "i": i, "j": j, "a": da, "b": db}
        R.case([cat, da, db], nontrivial=True, sample=(i == 3 and j in (3, 4)))
        ab, e1 = safe_eq(a, b)
        ba, e2 = safe_eq(b, a)
        if e1 or e2:
            R.violation("comparison-raised", "== is total on objects of one category", one, observed=e1 or e2)
            continue
        if ab != ba:
            R.violation("equality-not-symmetric:" + cat, "a == b <=> b == a", one, observed=[ab, ba])
        if (a != b) == ab:
            R.violation("ne-inconsistent:" + cat, "!= is the negation of ==", one, observed=[ab, a != b])
        if ab:
            try:
                if hash(a) != hash(b):
                    R.violation("equal-but-different-hash:" + cat, "equal objects have equal hashes", one, observed=[hash(a), hash(b)])
            except TypeError as ex:
                R.violation("unhashable:" + cat, "model objects are hashable", one, observed=repr(ex))
        req = must_differ(cat, da, db, a, b)
        if req is True and ab:
            R.outcome("wrongly-equal")
            R.violation("different-objects-compare-equal:" + cat, "equality distinguishes objects that differ in kind, normalized string form or bit length set", one, observed=[str(a), str(b)])
        elif req is False and not ab:
            R.outcome("wrongly-unequal")
            R.violation("equal-descriptions-compare-unequal:" + cat, "independently built equal objects are equal (BitLengthSet never reports equal sets as different)", one, observed=[str(a), str(b)])
        else:
            R.outcome("eq" if ab else "ne")
            if cat == "bls" and req is None and ab:
                R.counters["bls_approximate_equalities"] += 1
    if not (a == a):
        R.violation("not-reflexive:" + cat, "a == a", {"kind": "row", "cat": cat, "tier": tier, "i": i, "j": i}, observed=str(a))


def list_properties(x):
    out = []
    for name in dir(type(x)):
        if name.startswith("_"):
            continue
        if isinstance(getattr(type(x), name, None), property):
            out.append(name)
    return out


def check_object(case, R):
    cat, tier, i = case["cat"], case["tier"], case["i"]
    d = catalogue(cat, tier)[i]
    x = make(cat, d)
    before = obs(cat, x)
    hb = hash(x)
    sb = str(x)
    one = dict(case)
    one["desc"] = d
    # accessors returning lists are copies
    for name in list_properties(x):
        with warnings.catch_warnings():
            warnings.simplefilter("ignore")
            try:
                v = getattr(x, name)
            except Exception:  # noqa  (e.g. ServiceType.bit_length_set)
                continue
        if isinstance(v, list):
            R.case([cat, d, "accessor", name], nontrivial=True, sample=False)
            R.outcome("list-accessor")
            snapshot = list(v)
            v.append("INTRUDER")
            if snapshot:
                v[0] = "INTRUDER"
            with warnings.catch_warnings():
                warnings.simplefilter("ignore")
                again = getattr(x, name)
            if again != snapshot or obs(cat, x) != before or str(x) != sb:
                R.violation("accessor-exposes-internal-list:%s.%s" % (type(x).__name__ if not isinstance(x, pydsdl.CompositeType) else "CompositeType", name), "lists returned by accessors are copies", {**one, "accessor": name}, observed=repr(again)[:200], expected=repr(snapshot)[:200])
                return
    # whatever the QUERIES of a bit length set hand out (residue sets, expansions) is the caller's: scribbling on a mutable result
    # must not change the object it was asked of
    bls = x if cat == "bls" else (getattr(x, "bit_length_set", None) if cat == "type" and not isinstance(x, pydsdl.ServiceType) else None)
    if bls is not None:
        R.case([cat, d, "query-results"], nontrivial=True, sample=False)
        results = []
        for div in (1, 8, 32, 64):
            results.append(("%% %d" % div, bls % div))
        results.append(("pad_to_alignment(8)", bls.pad_to_alignment(8)))
        for what, r in results:
            for meth, args in (("clear", ()), ("add", (12345,)), ("append", (12345,)), ("update", ([7, 9],))):
                f = getattr(r, meth, None)
                if callable(f):
                    try:
                        f(*args)
                    except Exception:  # noqa
                        pass
        twin = make(cat, d)
        tb = twin if cat == "bls" else twin.bit_length_set
        if obs(cat, x) != before or str(x) != sb or hash(x) != hb or not (x == twin) or sorted(bls % 32) != sorted(tb % 32) or bls.is_aligned_at(32) != tb.is_aligned_at(32) or not (bls == tb):
            R.violation("query-result-is-a-live-view:" + cat, "model objects are immutable: modifying what a query handed out does not change the object", one, observed=[sorted(bls % 32), x == twin], expected=sorted(tb % 32))
            return
    # immutability under use: after the object has been compared / hashed / queried, every nested type object must still equal
    # an independently built object of the same description (a shared cache mutated by a parent's query would show here)
    if cat == "type" and T.is_composite(d):
        inner = d[1] if d[0] == "delim" else d
        twin = make(cat, d)
        _ = (x == twin, twin == x, hash(x), x.bit_length_set.is_aligned_at(32), sorted(x.bit_length_set % 64), [o.is_aligned_at_byte() for _f, o in x.iterate_fields_with_offsets()])
        nested = [f.data_type for f in x.inner_type.fields]
        for fdesc, ft in zip(inner[1], nested):
            R.case([cat, d, "nested-after-use", T.key(fdesc)], nontrivial=True, sample=False)
            fresh = T.build(fdesc, cache={})
            if not (ft == fresh and fresh == ft and hash(ft) == hash(fresh)) or dump.dtype(ft) != dump.dtype(fresh):
                R.violation("nested-object-changed-by-use:" + fdesc[0], "model objects are immutable: using a type does not change the objects it is built from", {**one, "field": fdesc}, observed=dump.dtype(ft).get("bls"), expected=dump.dtype(fresh).get("bls"))
                return
        # ... and, innermost first, every type object reachable from it still has the bit length set of its own description (the
        # reference layout, not another implementation object that may have been disturbed the same way)
        def walk(desc, t):
            dd = desc[1] if desc[0] in ("named",) else desc
            if dd[0] in ("farr", "varr"):
                yield from walk(dd[1], t.element_type)
            elif dd[0] in ("struct", "union", "delim"):
                inner_d = dd[1] if dd[0] == "delim" else dd
                for fd, f in zip(inner_d[1], t.inner_type.fields):
                    yield from walk(fd, f.data_type)
            yield dd, t

        for sd, st in walk(d, x):
            if sd[0] in ("byte", "utf8"):
                continue
            try:
                E = L.lengths(sd)
            except L.TooBig:
                continue
            b = st.bit_length_set
            got = [b.min, b.max, sorted(b % 32), sorted(b % 8), sorted(b % 5)]
            exp = [min(E), max(E), sorted({e % 32 for e in E}), sorted({e % 8 for e in E}), sorted({e % 5 for e in E})]
            if got != exp:
                R.violation("nested-object-changed-by-use:deep:" + sd[0], "model objects are immutable: using a type does not change the objects it is built from, at any depth", {**one, "nested": sd}, observed=got, expected=exp)
                return
        R.outcome("nested-after-use")
    # pickle
    R.case([cat, d, "pickle"], nontrivial=True, sample=False)
    y = pickle.loads(pickle.dumps(x))
    R.outcome("pickled")
    if not (y == x) or not (x == y) or hash(y) != hb or obs(cat, y) != before or str(y) != sb:
        R.violation("pickle-roundtrip:" + cat, "pickling round-trips to an equal object with identical string form, attributes and layout", one, observed=[str(y), y == x, hash(y) == hb], expected=sb)
    if hash(x) != hb or obs(cat, x) != before:
        R.violation("object-changed-by-observation:" + cat, "objects are immutable", one, observed=obs(cat, x), expected=before)


def make_service(fields_req, fields_rsp, sealed=True, port=None, name="Svc"):
    def part(suffix, fields):
        attrs = [pydsdl.Field(T.build(f), "f%d" % i) for i, f in enumerate(fields)]
        st = pydsdl.StructureType(name="vns.%s.%s" % (name, suffix), version=pydsdl.Version(1, 0), attributes=attrs, deprecated=False, fixed_port_id=None, source_file_path=Path("/nonexistent/vns/%s.1.0.dsdl" % name), has_parent_service=True)
        return st if sealed else pydsdl.DelimitedType(st, 256)

    return pydsdl.ServiceType(part("Request", fields_req), part("Response", fields_rsp), port)


def check_services(case, R):
    descs = [([["bool"]], [["uint", 8, "s"]], True, None), ([["bool"]], [["uint", 8, "s"]], False, None), ([["bool"]], [["uint", 8, "t"]], True, None), ([], [], True, 300), ([["uint", 8, "s"]], [["bool"]], True, None)]
    objs = [(d, make_service(*d), make_service(*d)) for d in descs]
    for (da, a, a2), (db, b, _b2) in itertools.product(objs, repeat=2):
        R.case(["service", repr(da), repr(db)], nontrivial=True, sample=False)
        R.outcome("service-pair")
        one = {"kind": "services", "a": repr(da), "b": repr(db)}
        ab, e = safe_eq(a, b)
        ba, e2 = safe_eq(b, a)
        if e or e2 or ab != ba:
            R.violation("service-equality", "== on service types is total and symmetric", one, observed=[ab, ba, e, e2])
            continue
        if ab and hash(a) != hash(b):
            R.violation("equal-but-different-hash:service", "equal objects have equal hashes", one, observed=[hash(a), hash(b)])
        if da == db and not (a == a2 and hash(a) == hash(a2)):
            R.violation("equal-descriptions-compare-unequal:service", "independently built equal objects are equal", one)
    for d, a, _ in objs:
        y = pickle.loads(pickle.dumps(a))
        if not (y == a) or dump.composite(y) != dump.composite(a) or hash(y) != hash(a):
            R.violation("pickle-roundtrip:service", "pickling round-trips", {"kind": "services", "a": repr(d)}, observed=str(y))
        for name in list_properties(a):
            try:
                v = getattr(a, name)
            except Exception:  # noqa
                continue
            if isinstance(v, list):
                snap = list(v)
                v.append("INTRUDER")
                if getattr(a, name) != snap:
                    R.violation("accessor-exposes-internal-list:CompositeType.%s" % name, "lists returned by accessors are copies", {"kind": "services", "a": repr(d), "accessor": name})


def xproc_produce(cat, tier):
    """Runs in ANOTHER interpreter (different string hash seed): builds, uses and pickles the whole catalogue."""
    objs = [make(cat, d) for d in catalogue(cat, tier)]
    for x in objs:
        _ = (hash(x), str(x), x == x, {x: 1})
    sys.stdout.buffer.write(pickle.dumps(objs))


def check_xproc(case, R):
    """Pickles made by an interpreter with another hash seed (a build cache, a spawned worker) load as equal values with equal hashes."""
    cat, tier = case["cat"], case["tier"]
    env = dict(os.environ, PYTHONHASHSEED=str(case["seed"]), PYTHONPATH=str(engine.VERIF))
    code = "from mc import engine; engine.bind_repo(); from mc.checks import c18; c18.xproc_produce(%r, %r)" % (cat, tier)
    p = subprocess.run([sys.executable, "-c", code], env=env, capture_output=True, cwd=str(engine.VERIF), timeout=600)
    if p.returncode != 0:
        raise RuntimeError("cross-process producer failed: " + p.stderr.decode(errors="replace")[-800:])
    loaded = pickle.loads(p.stdout)
    descs = catalogue(cat, tier)
    assert len(loaded) == len(descs)
    for d, y in zip(descs, loaded):
        R.case([cat, d, "xproc", case["seed"]], nontrivial=True, sample=False)
        x = make(cat, d)
        R.outcome("xproc-pickled")
        one = {**case, "desc": d}
        if not (y == x) or not (x == y) or obs(cat, y) != obs(cat, x) or str(y) != str(x):
            R.violation("pickle-roundtrip-across-processes:" + cat, "pickling round-trips to an equal object with identical string form, attributes and layout", one, observed=[str(y), safe_eq(y, x)], expected=str(x))
            return
        if hash(y) != hash(x) or {x: 1}.get(y) != 1:
            R.violation("equal-but-different-hash:unpickled-in-another-process:" + cat, "equal objects have equal hashes (an unpickled object equals the locally built one)", one, observed=[hash(y), hash(x)], expected="equal hashes")
            return


COPY_METHODS = ["pickle0", "pickle2", "pickle5", "copy", "deepcopy", "pickle-twice", "deepcopy-in-container"]


def rich_composites():
    """Composites with every kind of attribute (fields, padding, constants of every carrier type) and every wrapper."""
    u8, f32, b = pydsdl.UnsignedIntegerType(8, T.S), pydsdl.FloatType(32, T.S), pydsdl.BooleanType()

    def attrs(union=False):
        a = [pydsdl.Field(u8, "a"), pydsdl.Field(pydsdl.VariableLengthArrayType(b, 3), "arr")]
        if not union:
            a.insert(1, pydsdl.PaddingField(pydsdl.VoidType(3)))
        a += [pydsdl.Constant(u8, "LIMIT", pydsdl.Rational(7)), pydsdl.Constant(f32, "PI", pydsdl.Rational(Fraction(22, 7))), pydsdl.Constant(b, "FLAG", pydsdl.Boolean(True)), pydsdl.Constant(u8, "CH", pydsdl.String("x"))]
        return a

    def comp(cls, name, union=False, svc=False):
        return cls(name="vns." + name, version=pydsdl.Version(1, 2), attributes=attrs(union), deprecated=True, fixed_port_id=None if svc else 6200, source_file_path=Path("/nonexistent/vns/6200.%s.1.2.dsdl" % name.split(".")[0]), has_parent_service=svc, doc="doc of " + name)

    s = comp(pydsdl.StructureType, "S")
    u = comp(pydsdl.UnionType, "U", union=True)
    outer = pydsdl.StructureType(name="vns.O", version=pydsdl.Version(1, 0), attributes=[pydsdl.Field(comp(pydsdl.StructureType, "S"), "s"), pydsdl.Field(pydsdl.FixedLengthArrayType(pydsdl.DelimitedType(comp(pydsdl.UnionType, "U", union=True), 128), 2), "us"), pydsdl.Constant(u8, "K", pydsdl.Rational(1))], deprecated=True, fixed_port_id=None, source_file_path=Path("/nonexistent/vns/O.1.0.dsdl"), has_parent_service=False)
    svc = pydsdl.ServiceType(comp(pydsdl.StructureType, "Svc.Request", svc=True), pydsdl.DelimitedType(comp(pydsdl.UnionType, "Svc.Response", union=True, svc=True), 256), 300)
    return [s, u, pydsdl.DelimitedType(comp(pydsdl.StructureType, "D"), 512), pydsdl.DelimitedType(comp(pydsdl.UnionType, "DU", union=True), 512), outer, svc]


def check_copy(case, R):
    import copy

    x = rich_composites()[case["i"]]
    how = case["how"]
    if how.startswith("pickle") and how != "pickle-twice":
        y = pickle.loads(pickle.dumps(x, protocol=int(how[6:])))
    elif how == "pickle-twice":
        y = pickle.loads(pickle.dumps(pickle.loads(pickle.dumps(x))))
    elif how == "copy":
        y = copy.copy(x)
    elif how == "deepcopy":
        y = copy.deepcopy(x)
    else:
        y = copy.deepcopy({"k": [x, x]})["k"][1]
    R.case(["copy", case["i"], how], nontrivial=True, sample=(how == "deepcopy" and case["i"] == 0))

    def parts(t):
        return [t.request_type, t.response_type] if isinstance(t, pydsdl.ServiceType) else [t]

    bad = None
    if not (y == x and x == y and hash(x) == hash(y) and str(x) == str(y) and repr(x) == repr(y)) or dump.composite(x, with_paths=True) != dump.composite(y, with_paths=True):
        bad = "dump / equality / hash / string form"
    else:
        for px, py in zip(parts(x), parts(y)):
            # the by-name view of the attributes (CompositeType.__getitem__) is part of the object too
            for a in px.attributes:
                if not a.name:
                    continue
                try:
                    got = py[a.name]
                except Exception as ex:  # noqa
                    bad = "copy[%r] raised %s" % (a.name, type(ex).__name__)
                    break
                if dump.attribute(got) != dump.attribute(px[a.name]) or got != a:
                    bad = "copy[%r] differs" % a.name
                    break
            for missing in ("nonexistent", ""):
                rx = ry = None
                try:
                    px[missing]
                except Exception as ex:  # noqa
                    rx = type(ex).__name__
                try:
                    py[missing]
                except Exception as ex:  # noqa
                    ry = type(ex).__name__
                if rx != ry:
                    bad = "lookup of %r: original %s, copy %s" % (missing, rx, ry)
            if [str(f) for f in px.fields_except_padding] != [str(f) for f in py.fields_except_padding] or [str(c) for c in px.constants] != [str(c) for c in py.constants] or py.inner_type.extent != px.inner_type.extent:
                bad = "accessor lists"
            if bad:
                break
    if bad:
        R.violation("copy-differs:%s" % how.rstrip("0123456789-twice"), "pickling (and copying) round-trips to an equal object with identical string form, attributes and layout", case, observed=bad, expected=str(x))
    else:
        R.outcome("copied")


def check_case(case, R):
    if case["kind"] == "copy":
        return check_copy(case, R)
    if case["kind"] == "xproc":
        return check_xproc(case, R)
    if case["kind"] == "row":
        check_row(case, R)
    elif case["kind"] == "object":
        check_object(case, R)
    else:
        check_services(case, R)


def finish(tier, M):
    if not M.hist.get("eq") or not M.hist.get("ne") or not M.hist.get("list-accessor") or not M.hist.get("pickled") or not M.hist.get("copied"):
        raise engine.Vacuous(repr(dict(M.hist)))
    return {"catalogue_sizes": {c: len(catalogue(c, tier)) for c in CATEGORIES}, "bls_pairs_equal_by_approximation_only": M.counters.get("bls_approximate_equalities", 0)}
