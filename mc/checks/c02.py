"""
C02 - Every type's layout (lengths, alignment, extent, prefixes) is the Specification.

Bounded-exhaustive enumeration of type descriptions (mc.gen.types), each built through the public constructors (and a
stated subset also from DSDL text through read_namespace) and compared with ref.layout.
"""
from __future__ import annotations

import itertools

import pydsdl

from .. import api, dump, engine
from ..gen import types as T
from ..ref import bls as rbls
from ..ref import layout as L

ID = "C02"
LEVEL = "exploration"
DESIGN_REF = "DESIGN.md 4/C02"
RULE = (
    "case = type description; families: all primitives/voids of width 1..64; arrays over the scalar alphabet with "
    "capacities 1..3; boundary capacities / variant counts around 2**8, 2**16, 2**32 (analytic); all structures of <=3 "
    "fields and unions of 2..3 variants over the field alphabet of each depth (depth 1: 7 leaves + 5 arrays; depth 2: "
    "+13 representative depth-1 composites and 8 arrays of them; thorough depth 3: + a slice of depth-2 types), each "
    "sealed and delimited with extent in {min, min+8, min+64}; every field order is a separate case; sequences of types whose elements / variants differ as sets but agree in min, max and residues mod 32 (built one after the other in one process); nested arrays whose lengths exceed 2**53 bits with low bits set. Non-trivial iff the "
    "type has an array or composite node; distinct by canonical hash of the description"
)
ASSUMPTIONS = [
    "ref.layout is the Specification's layout (explicit cursor semantics; analytic tree cross-checked against it)",
    "alignment above 8 bits is not constructible and is not explored",
]

REPS1 = [
    ["struct", []],
    ["struct", [["bool"]]],
    ["struct", [["uint", 17, "t"]]],
    ["struct", [["varr", ["uint", 8, "s"], 2]]],
    ["struct", [["varr", ["bool"], 3]]],
    ["struct", [["bool"], ["varr", ["uint", 8, "s"], 2]]],
    ["struct", [["uint", 3, "s"], ["void", 5], ["int", 16]]],
    ["union", [["bool"], ["int", 16]]],
    ["union", [["varr", ["uint", 8, "s"], 2], ["float", 32, "s"]]],
    ["delim", ["struct", []], 0],
    ["delim", ["struct", [["bool"]]], 16],
    ["delim", ["struct", [["uint", 8, "s"], ["varr", ["bool"], 3]]], 32],
    ["delim", ["union", [["bool"], ["int", 16]]], 32],
]
ARR_OF_REPS = [["farr", REPS1[i], 2] for i in (1, 4, 7, 11)] + [["varr", REPS1[i], 2] for i in (1, 4, 7, 11)]
INTERIOR = [["varr", ["uint", 4, "s"], 2], ["varr", ["uint", 12, "s"], 2]]  # {8,12,16}, {8,20,32}: aligned extremes, unaligned interior
F2 = T.LEAF7 + [T.ARR5[0], T.ARR5[1], T.ARR5[2]] + INTERIOR + REPS1 + ARR_OF_REPS

BOUNDARY_CAPS = [255, 256, 257, 65535, 65536, 65537, 2**32 - 1, 2**32, 2**32 + 1, 2**63, 2**64 - 1]
BOUNDARY_VARIANTS = [2, 3, 255, 256, 257, 65536, 65537]


def with_delimited(d):
    yield d
    yield from T.delimited_variants(d, L.tmax(d))


def family(name: str, tier: str):
    if name == "prims":
        for d in T.scalars(T.W_THOROUGH):
            yield d
        for n in range(1, 65):
            yield ["void", n]
        yield ["byte"]
        yield ["utf8"]
    elif name == "arrays":
        ws = T.W_QUICK if tier == "quick" else T.W_THOROUGH
        yield from T.arrays_over(T.scalars(ws) + [["byte"], ["utf8"]])
        # nested arrays
        inner = T.arrays_over([["bool"], ["uint", 3, "s"], ["uint", 8, "s"], ["uint", 17, "t"]], (2, 3), (1, 3))
        yield from T.arrays_over(inner, (1, 2, 3), (1, 2, 3))
    elif name == "boundary":
        for e in (["bool"], ["uint", 3, "s"], ["uint", 8, "s"], ["byte"], ["utf8"], ["varr", ["bool"], 7], ["struct", [["bool"]]]):
            for c in BOUNDARY_CAPS:
                yield ["varr", e, c]
                if e[0] != "utf8":
                    yield ["farr", e, c]
        for n in BOUNDARY_VARIANTS:
            yield ["union", [["bool"]] * n]
            yield ["union", [["uint", 8, "s"]] * (n - 1) + [["struct", [["bool"]]]]]
        for ext in (0, 8, 2**16, 2**32, 2**40 * 8, 2**63 * 8):
            yield ["delim", ["struct", []], ext]
            if ext >= 24:
                yield ["delim", ["struct", [["uint", 17, "t"]]], ext]
        # magnitudes beyond 2**53 bits with low bits set (nothing here may go through floating point), padded afterwards
        big = ["struct", [["varr", ["struct", [["varr", ["uint", 64, "s"], 2**32]]], 2**32], ["bool"]]]
        yield big
        yield ["delim", big, L.tmax(big)]
        yield ["struct", [["uint", 3, "s"], ["farr", ["struct", [["varr", ["uint", 17, "t"], 2**40 + 1], ["bool"]]], 2**20 + 3], ["uint", 3, "s"]]]
        yield ["union", [["varr", ["struct", [["varr", ["uint", 64, "s"], 2**32 - 1]]], 2**32 - 1], ["farr", ["uint", 33, "s"], 2**59 + 1]]]
        yield ["struct", [["varr", ["varr", ["varr", ["uint", 8, "s"], 2**24 + 1], 2**24 + 1], 2**24 + 1], ["bool"]]]
    elif name == "medium":
        yield from T.medium(tier)
        # more distinct capacities in ONE process than any bounded per-capacity cache holds, then the first ones again
        u8 = ["uint", 8, "s"]
        caps = list(range(1, 40)) + list(range(250, 330)) + list(range(65530, 65545)) + list(range(1, 40)) + list(range(250, 262)) + [2**32 - 1, 2**32, 3, 300, 70000]
        yield ["seq", [["struct", [["varr", u8, c], ["bool"]]] for c in caps]]
        yield ["seq", [["struct", [["farr", ["uint", 3, "s"], c], ["varr", ["bool"], c]]] for c in list(range(1, 100)) + list(range(1, 12))]]
        yield ["seq", [["struct", [["uint", w, "s"], ["int", max(2, w)], ["void", w]]] for w in list(range(1, 65)) * 2]]
        # composites that differ only DEEP inside (many fields / many nesting levels away from the root), side by side in one container
        for x in (u8, ["varr", u8, 1], ["uint", 3, "s"]):
            for n in (8, 9, 12, 17):
                a, b = ["struct", [["uint", 8, "s"]] + [x] * n], ["struct", [["uint", 40, "s"]] + [x] * n]
                yield ["seq", [["union", [a, b]], ["union", [b, a]], ["struct", [a, b]], ["struct", [["varr", a, 2], ["varr", b, 2]]]]]
        for depth in (4, 5, 6, 8):
            a, b = ["struct", [["uint", 8, "s"]]], ["struct", [["uint", 40, "s"]]]
            for _ in range(depth):
                a, b = ["struct", [["bool"], a]], ["struct", [["bool"], b]]
            yield ["seq", [["union", [a, b]], ["struct", [b, a]]]]
    elif name == "nested-arrays":
        # arrays of arrays (only constructible through the public constructors): the alignment is that of the innermost element
        comps = [["struct", [["uint", 8, "s"]]], ["struct", [["bool"]]], ["union", [["bool"], ["uint", 8, "s"]]], ["delim", ["struct", [["uint", 8, "s"]]], 16], ["struct", []], ["uint", 3, "s"], ["bool"], ["varr", ["struct", [["bool"]]], 2]]
        for c in comps:
            for outer_k, inner_k in itertools.product(("farr", "varr"), repeat=2):
                arr = [outer_k, [inner_k, c, 2], 2]
                yield arr
                for lead in (["bool"], ["uint", 5, "s"], ["uint", 8, "s"]):
                    yield ["struct", [lead, arr, ["bool"]]]
                yield ["union", [["bool"], arr]]
                yield ["delim", ["struct", [["bool"], arr]], L.tmax(["struct", [["bool"], arr]]) + 8]
            yield ["struct", [["uint", 3, "s"], ["farr", ["farr", ["farr", c, 2], 1], 2], ["bool"]]]
            yield ["struct", [["bool"], ["varr", ["farr", ["varr", c, 2], 3], 2], ["bool"]]]
    elif name == "colliders":
        # sequences of types, built one after the other in ONE process, whose elements / variants / fields differ as sets but agree
        # in min, max and residues mod 32
        for g in T.COLLIDERS:
            for a, b in itertools.permutations(g, 2):
                yield ["seq", [["union", [a, b]], ["union", [b, a]], ["struct", [a, b]], ["struct", [["bool"], b, a]]]]
                yield ["seq", [["struct", [["farr", a, 2]]], ["struct", [["farr", b, 2]]]]]
                yield ["seq", [["struct", [["varr", a, 2], ["bool"]]], ["struct", [["varr", b, 2], ["bool"]]]]]
                yield ["seq", [["struct", [["bool"], a]], ["struct", [["bool"], b]], ["union", [["farr", a, 3], ["farr", b, 3]]]]]
                yield ["seq", [["delim", ["union", [a, b]], L.tmax(["union", [a, b]]) + 8], ["union", [["uint", 8, "s"], a, b]], ["union", [b, ["uint", 8, "s"], a]]]]
    elif name == "union-constants":
        # constants are attributes but not variants: (variants, constants) straddling the tag-width boundaries
        for n, c in [(2, 0), (2, 1), (2, 254), (2, 255), (3, 253), (3, 254), (255, 1), (255, 2), (256, 0), (256, 1), (257, 0), (2, 65534), (2, 65535), (65536, 1)]:
            yield ["union+consts", n, c]
    elif name == "depth1s":
        for d in T.structs(T.F1, 3):
            yield from with_delimited(d)
    elif name == "depth1u":
        for d in T.unions(T.F1, 3):
            yield from with_delimited(d)
    elif name == "depth2s":
        for d in T.structs(F2, 3, 1):
            if any(T.is_composite(f) or (f[0] in ("farr", "varr") and T.is_composite(f[1])) for f in d[1]):
                yield d
                yield ["delim", d, L.tmax(d)]
                yield ["delim", d, L.tmax(d) + 8]
    elif name == "depth2u":
        for d in T.unions(F2, 3):
            if any(T.is_composite(f) or (f[0] in ("farr", "varr") and T.is_composite(f[1])) for f in d[1]):
                yield d
                yield ["delim", d, L.tmax(d)]
    elif name == "depth3":
        # sub-byte biased leaves around a slice of depth-2 composites
        leaves = [["bool"], ["uint", 3, "s"], ["uint", 17, "t"], ["varr", ["bool"], 3]]
        slice2 = [d for i, d in enumerate(itertools.chain(family("depth2s", tier), family("depth2u", tier))) if i % 23 == 0]
        for c in slice2:
            for a, b in itertools.product(leaves, repeat=2):
                yield ["struct", [a, c, b]]
                yield ["struct", [a, ["varr", c, 2], b]]
            for a in leaves:
                yield ["union", [a, c]]
                yield ["delim", ["struct", [a, c]], L.tmax(["struct", [a, c]]) + 8]
                yield ["struct", [a, ["farr", c, 2]]]


ALIAS_POOL = [
    ["struct", []], ["struct", [["bool"]]], ["struct", [["uint", 8, "s"]]], ["struct", [["uint", 8, "s"], ["bool"]]], ["struct", [["bool"], ["uint", 8, "s"]]], ["struct", [["varr", ["uint", 16, "s"], 4]]],
    ["struct", [["varr", ["union", [["uint", 8, "s"], ["uint", 56, "s"]]], 1]]], ["struct", [["varr", ["uint", 32, "s"], 2]]], ["struct", [["uint", 3, "s"], ["varr", ["bool"], 3]]],
    ["union", [["bool"], ["uint", 8, "s"]]], ["union", [["uint", 8, "s"], ["bool"]]], ["union", [["uint", 8, "s"], ["uint", 56, "s"]]], ["union", [["uint", 8, "s"], ["uint", 24, "s"], ["uint", 56, "s"]]],
    ["delim", ["struct", [["uint", 8, "s"]]], 32], ["delim", ["struct", [["uint", 8, "s"], ["uint", 16, "s"]]], 32], ["delim", ["struct", [["uint", 8, "s"]]], 64], ["delim", ["union", [["bool"], ["uint", 8, "s"]]], 32],
]
FAMILIES_QUICK = [("prims", 1), ("arrays", 4), ("boundary", 4), ("colliders", 4), ("nested-arrays", 2), ("medium", 8), ("union-constants", 1), ("capacity-expressions", 1), ("depth1s", 8), ("depth1u", 8), ("depth2s", 48), ("depth2u", 32), ("aliases", 1)]
FAMILIES_THOROUGH = FAMILIES_QUICK + [("depth3", 64)]


def plan(tier):
    shards = []
    for name, parts in FAMILIES_QUICK if tier == "quick" else FAMILIES_THOROUGH:
        for p in range(parts):
            shards.append({"family": name, "part": p, "parts": parts})
    return shards


def cases(shard, tier):
    if shard["family"] == "capacity-expressions":
        for i in range(len(CAPACITY_EXPRESSIONS)):
            for where in ("varr", "varr-lt", "farr", "extent"):
                yield {"kind": "capacity-expression", "i": i, "where": where, "desc": ["capacity-expression"]}
        return
    if shard["family"] == "aliases":
        # distinct types built under ONE name, one after the other in one process (layout must not be cached by name / approximate equality)
        for a, b in itertools.permutations(range(len(ALIAS_POOL)), 2):
            yield {"alias": [a, b]}
        return
    text_every = {"depth1s": 16, "depth1u": 16, "depth2s": 400, "depth2u": 400, "depth3": 200, "arrays": 0, "prims": 0, "boundary": 0, "union-constants": 0, "colliders": 0, "nested-arrays": 0, "medium": 7}[shard["family"]]
    for i, d in enumerate(family(shard["family"], tier)):
        if i % shard["parts"] == shard["part"]:
            yield {"desc": d, "text": bool(text_every and (i // shard["parts"]) % text_every == 0) and not T.has_array_of_arrays(d)}


DIVS = list(range(1, 17)) + [24, 32, 64]


def expected_bls(desc):
    """Returns dict of expected analytic answers (from the explicit set when it can be built, else from the tree)."""
    try:
        E = L.lengths(desc)
    except L.TooBig:
        E = None
    if E is not None:
        exp = {"min": min(E), "max": max(E)}
        for d in DIVS:
            exp["%%%d" % d] = sorted({x % d for x in E})
    else:
        t = L.tree(desc)
        exp = {"min": rbls.tmin(t), "max": rbls.tmax(t)}
        for d in DIVS:
            exp["%%%d" % d] = sorted(rbls.residues(t, d))
    return E, exp


def observe_bls(b: pydsdl.BitLengthSet):
    got = {"min": b.min, "max": b.max}
    for d in DIVS:
        got["%%%d" % d] = sorted(b % d)
    return got


def nontrivial(desc) -> bool:
    return desc[0] in ("farr", "varr", "struct", "union", "delim")


def root(desc):
    return desc[0] if desc[0] != "delim" else "delim-" + desc[1][0]


def check_alias(case, R: engine.Acc):
    for step, idx in enumerate(case["alias"] + case["alias"][:1]):
        d = ALIAS_POOL[idx]
        t = T.build_named(d, "Alias", (1, 0))
        E, exp = expected_bls(d)
        got = observe_bls(t.bit_length_set)
        R.case([case["alias"], step], nontrivial=True, sample=False)
        R.outcome("alias")
        ok = got == exp and t.extent == L.extent(d) and set(t.bit_length_set) == set(E) and [str(f.data_type) for f in t.fields] == [T.normalized(f) for f in (d[1] if d[0] != "delim" else d[1][1])]
        if not ok:
            R.violation("layout-depends-on-history", "the layout of a type is its own, whatever other same-named types were built before in the process", {**case, "step": step}, observed={"bls": got, "extent": t.extent}, expected={"bls": exp, "extent": L.extent(d)})
            return
        # arrays over, and structures around, the same-named type
        u8 = pydsdl.UnsignedIntegerType(3, pydsdl.PrimitiveType.CastMode.SATURATED)
        from pathlib import Path

        outer = [
            (["farr", d, 2], pydsdl.FixedLengthArrayType(t, 2)),
            (["varr", d, 2], pydsdl.VariableLengthArrayType(t, 2)),
            (["struct", [["uint", 3, "s"], d, ["uint", 3, "s"]]], pydsdl.StructureType(name="vns.Outer", version=pydsdl.Version(1, 0), attributes=[pydsdl.Field(u8, "a"), pydsdl.Field(t, "b"), pydsdl.Field(u8, "c")], deprecated=False, fixed_port_id=None, source_file_path=Path("/nonexistent/vns/Outer.1.0.dsdl"), has_parent_service=False)),
            (["struct", [["varr", d, 2], ["bool"]]], pydsdl.StructureType(name="vns.Outer", version=pydsdl.Version(1, 0), attributes=[pydsdl.Field(pydsdl.VariableLengthArrayType(t, 2), "a"), pydsdl.Field(pydsdl.BooleanType(), "b")], deprecated=False, fixed_port_id=None, source_file_path=Path("/nonexistent/vns/Outer.1.0.dsdl"), has_parent_service=False)),
        ]
        for od, ot in outer:
            oe, oexp = expected_bls(od)
            ogot = observe_bls(ot.bit_length_set)
            if ogot != oexp or (oe is not None and len(oe) <= 300 and set(ot.bit_length_set) != set(oe)):
                R.violation("layout-depends-on-history", "arrays over / structures around a type use that type's own layout, whatever same-named types were built before", {**case, "step": step, "outer": od[0]}, observed=ogot, expected=oexp)
                return
        # the same through the front end: each one read from its own scratch tree under the same file name
        files = {}
        inner = d[1] if d[0] == "delim" else d
        lines = (["@union"] if inner[0] == "union" else []) + [("%s f%d" % (T.type_expr(f), i)) for i, f in enumerate(inner[1])] + ["@extent %d" % d[2] if d[0] == "delim" else "@sealed"]
        for f in inner[1]:
            T.to_files(f, files)
        files["vns/Alias.1.0.dsdl"] = "\n".join(lines) + "\n"
        o = api.read_namespace_tree(files, "vns")
        if o.error is not None:
            R.violation("text-path-rejected", "the type is constructible from DSDL text", {**case, "step": step}, observed=o.error)
            return
        tt = [x for x in o.types if x["full_name"] == "vns.Alias"][0]
        want = dump.composite(t)
        if tt != want:
            R.violation("layout-depends-on-history", "the layout of a type read from text is its own, whatever same-named definitions were read before", {**case, "step": step}, observed=tt["bls"], expected=want["bls"])
            return


def check_union_constants(case, R: engine.Acc):
    _k, n, c = case["desc"]
    from pathlib import Path

    attrs = [pydsdl.Field(pydsdl.UnsignedIntegerType(8, pydsdl.PrimitiveType.CastMode.SATURATED), "f%d" % i) for i in range(n)]
    consts = [pydsdl.Constant(pydsdl.UnsignedIntegerType(8, pydsdl.PrimitiveType.CastMode.SATURATED), "K%d" % i, pydsdl.Rational(1)) for i in range(c)]
    # constants interleaved at the front, in the middle and at the end
    mixed = consts[: c // 2] + attrs[: n // 2] + consts[c // 2 :] + attrs[n // 2 :]
    t = pydsdl.UnionType(name="vns.UC", version=pydsdl.Version(1, 0), attributes=mixed, deprecated=False, fixed_port_id=None, source_file_path=Path("/nonexistent/vns/UC.1.0.dsdl"), has_parent_service=False)
    w = L.smallest_standard_width(n - 1)
    R.case(case["desc"], nontrivial=True, sample=False)
    R.outcome("union")
    if t.tag_field_type.bit_length != w or t.number_of_variants != n:
        R.violation("union-tag-width", "union tag is the smallest of 8/16/32/64 holding the variant index (constants are not variants)", case, observed=[str(t.tag_field_type), t.number_of_variants], expected=["truncated uint%d" % w, n])
    b = t.bit_length_set
    if (b.min, b.max, sorted(b % 64)) != (w + 8, w + 8, [(w + 8) % 64]):
        R.violation("bit-length-set-union", "bit_length_set equals the Specification's set", case, observed=[b.min, b.max, sorted(b % 64)], expected=[w + 8, w + 8])
    offs = {o.min for _f, o in t.iterate_fields_with_offsets()}
    if offs != {w}:
        R.violation("union-tag-width", "variants start right after the tag", case, observed=sorted(offs), expected=[w])


# Capacities and extents written as EXPRESSIONS: the layout follows the value the Specification gives the expression
# (right-associative **, left-associative - / // %, unary signs, literals in every base, parentheses)
CAPACITY_EXPRESSIONS = [
    ("2 ** 2 ** 3", 256), ("2 ** 3 ** 2 - 500", 12), ("2 * 3 + 1", 7), ("(1 + 1) * 4", 8), ("0x10", 16), ("1_0", 10), ("0b101", 5), ("0o17", 15), ("7 / 2 * 2", 7), ("7 % 4", 3), ("2 ** 3 * 2", 16), ("-1 + 10", 9), ("2 ** -1 * 8", 4),
    ("20 - 5 - 3", 12), ("64 / 4 / 2", 8), ("2 ** 2 ** 2 ** 1", 16), ("+(3)", 3), ("255 + 1", 256), ("2 ** 16 - 1", 65535), ("2 ** 16", 65536), ("2 ** 8 - 1", 255), ("1 + 2 ** 32", 2**32 + 1), ("{1, 5, 3}.max", 5), ("3 * -(-2)", 6), ("1.5 * 4", 6), ("2e1", 20),
]


def check_capacity_expression(case, R: engine.Acc):
    expr, value = CAPACITY_EXPRESSIONS[case["i"]]
    where = case["where"]
    u8 = ["uint", 8, "s"]
    if where == "varr":
        text, desc = "uint8[<=%s] a\nbool b\n@sealed\n" % expr, ["struct", [["varr", u8, value], ["bool"]]]
    elif where == "varr-lt":
        text, desc = "uint8[<%s + 1] a\nbool b\n@sealed\n" % expr, ["struct", [["varr", u8, value], ["bool"]]]
    elif where == "farr":
        text, desc = "bool b\nuint8[%s] a\n@sealed\n" % expr, ["struct", [["bool"], ["farr", u8, value]]]
    else:
        text, desc = "uint8 a\n@extent (%s) * 8\n" % expr, ["delim", ["struct", [u8]], value * 8]
    R.case(["capacity-expression", expr, where], nontrivial=True, sample=False)
    o = api.read_namespace_tree({"rns/T.1.0.dsdl": text}, "rns")
    if where == "extent" and value * 8 < 8:
        return
    if o.error is not None:
        R.violation("capacity-expression-rejected", "a capacity / extent given as a constant expression is evaluated as the Specification defines", case, observed=o.error, expected=value)
        return
    got = o.types[0]
    exp = dump.composite(T.build(desc))
    obs = {"bls": got["bls"], "extent": got["extent"], "fields": [(a["type"].get("capacity"), a["type"].get("prefix"), a["type"]["bls"]) for a in got["attributes"]]}
    want = {"bls": exp["bls"], "extent": exp["extent"], "fields": [(a["type"].get("capacity"), a["type"].get("prefix"), a["type"]["bls"]) for a in exp["attributes"]]}
    if obs != want:
        R.outcome("capacity-expression-differs")
        R.violation("layout-differs:capacity-expression:" + where, "the layout follows the value of the capacity / extent expression (Specification precedence and associativity)", case, observed=obs, expected=want)
    else:
        R.outcome("capacity-expression")


def check_case(case, R: engine.Acc):
    if case.get("kind") == "capacity-expression":
        return check_capacity_expression(case, R)
    if "alias" in case:
        return check_alias(case, R)
    if case["desc"][0] == "union+consts":
        return check_union_constants(case, R)
    if case["desc"][0] == "seq":
        for d in case["desc"][1]:
            check_case({"desc": d, "text": False}, R)
        R.outcome("colliders")
        return
    desc = case["desc"]
    R.case(desc, nontrivial=nontrivial(desc), sample=(desc[0] == "delim" and len(desc[1][1]) == 3))
    V = lambda fp, clause, obs, exp: R.violation(fp, clause, case, observed=obs, expected=exp)  # noqa: E731
    with engine.deadline(60):
        t = T.build(desc)
        E, exp = expected_bls(desc)
        got = observe_bls(t.bit_length_set)
    R.outcome(root(desc))
    if got != exp:
        bad = [k for k in exp if got[k] != exp[k]]
        V("bit-length-set-" + root(desc), "bit_length_set equals the Specification's set", {k: got[k] for k in bad[:5]}, {k: exp[k] for k in bad[:5]})
    a = L.align(desc)
    if t.alignment_requirement != a:
        V("alignment-" + root(desc), "alignment_requirement", t.alignment_requirement, a)
    if not t.bit_length_set.is_aligned_at(a) or (E is not None and any(x % a for x in E)):
        V("length-not-multiple-of-alignment", "every length is a multiple of the alignment", sorted(t.bit_length_set % a), [0])
    # numerical expansion of the implementation against the explicit reference set
    if E is not None and len(E) <= 600 and rbls.impl_expansion_cost(L.tree(desc)) <= 5e4:
        with engine.deadline(60):
            items = set(t.bit_length_set)
        R.counters["expanded"] += 1
        if items != set(E):
            V("bit-length-set-expansion-" + root(desc), "expanded bit_length_set equals the Specification's set", sorted(items)[:40], sorted(E)[:40])
    else:
        R.counters["analytic_only"] += 1
    k = desc[0]
    if not T.is_composite(desc):
        if str(t) != T.normalized(desc):
            V("normalized-string", "normalized string form", str(t), T.normalized(desc))
    if k == "varr":
        w = L.prefix_width(desc)
        if t.length_field_type.bit_length != w or str(t.length_field_type) != "truncated uint%d" % w:
            V("length-prefix-width", "array length prefix is the smallest of 8/16/32/64 holding the capacity", str(t.length_field_type), "truncated uint%d" % w)
        if t.capacity != desc[2]:
            V("capacity", "capacity", t.capacity, desc[2])
    if T.is_composite(desc):
        if a != 8 or not t.bit_length_set.is_aligned_at_byte():
            V("composite-not-byte-aligned", "composites are byte-aligned and padded to a byte", [t.alignment_requirement, sorted(t.bit_length_set % 8)], [8, [0]])
        inner_desc = desc[1] if k == "delim" else desc
        it = t.inner_type
        if inner_desc[0] == "union":
            w = L.tag_width(inner_desc)
            if it.tag_field_type.bit_length != w or str(it.tag_field_type) != "truncated uint%d" % w:
                V("union-tag-width", "union tag is the smallest of 8/16/32/64 holding the variant index", str(it.tag_field_type), "truncated uint%d" % w)
            if it.number_of_variants != len(inner_desc[1]):
                V("variant-count", "number_of_variants", it.number_of_variants, len(inner_desc[1]))
        ext = L.extent(desc)
        if t.extent != ext:
            V("extent-" + root(desc), "extent (sealed: longest representation; delimited: as declared)", t.extent, ext)
        fts = [str(f.data_type) for f in t.fields]
        efts = [T.normalized(f) for f in inner_desc[1]]
        if fts != efts:
            V("field-types", "fields in order with normalized types", fts[:6], efts[:6])
        if k == "delim":
            if str(t.delimiter_header_type) != "truncated uint32":
                V("delimiter-header-width", "delimiter header is 32 bits", str(t.delimiter_header_type), "truncated uint32")
            if it.extent != L.tmax(inner_desc):
                V("inner-extent", "inner (sealed-like) extent is its longest representation", it.extent, L.tmax(inner_desc))
            Ei, expi = expected_bls(inner_desc)
            goti = observe_bls(it.bit_length_set)
            if goti != expi:
                V("inner-bit-length-set", "inner type's bit_length_set", goti, expi)
        # extent admissibility: checked once per inner type (on the sealed case)
        if k != "delim" and len(desc[1]) <= 3:
            mx = L.tmax(desc)
            for e, ok in ((mx, True), (mx + 8, True), (mx + 1, False), (mx + 4, False), (mx - 8, False), (mx + 9, False)):
                if e < 0:
                    continue
                R.counters["extent_probes"] += 1
                try:
                    pydsdl.DelimitedType(t, e)
                    accepted = True
                    err = None
                except pydsdl.InvalidDefinitionError as ex:
                    accepted = False
                    err = type(ex).__name__
                if accepted != ok:
                    R.violation("extent-admissibility", "a delimited extent is admissible iff it is a multiple of 8 and >= the longest representation", {"desc": desc, "text": False, "probe_extent": e}, observed={"accepted": accepted, "err": err}, expected={"accepted": ok})
    # the same type through the front end (DSDL text -> read_namespace)
    if case.get("text") and T.is_composite(desc):
        files = T.to_files(desc)
        o = api.read_namespace_tree(files, "vns")
        R.counters["text_builds"] += 1
        if o.error is not None:
            V("text-path-rejected", "the type is constructible from DSDL text", o.error, "accepted")
        else:
            want = "vns." + T.type_name(desc)
            tt = [x for x in o.types if x["full_name"] == want]
            d_api = dump.composite(t)
            if len(tt) != 1 or tt[0] != d_api:
                V("text-path-differs", "front end and constructors agree on the layout", tt[:1], d_api)


def worker_init():
    assert L.selfcheck() > 100
    assert rbls.selfcheck() > 1000


def finish(tier, M):
    need = ["farr", "varr", "struct", "union", "delim-struct", "delim-union", "alias", "colliders"]
    miss = [n for n in need if not M.hist.get(n)]
    if miss or not M.counters.get("text_builds") or not M.counters.get("expanded"):
        raise engine.Vacuous("families not visited: %s" % miss)
    return {
        "bounds": "widths 1..64; capacities 1..3 + boundary capacities %s (analytic); <=3 fields / 2..3 variants per composite; nesting depth %d; extents min, min+8, min+64" % (BOUNDARY_CAPS, 2 if tier == "quick" else 3),
        "alphabet": {"depth1_fields": [T.key(x) for x in T.F1], "depth2_extra_fields": [T.key(x) for x in REPS1 + ARR_OF_REPS]},
    }
