"""
C07 - Deserialization is total and obeys implicit truncation / zero extension.

Every (type, byte string) of the bounded space: the real deserialize returns exactly what ref.codec.decode returns or
raises SerDesError/ValueError exactly when the reference rejects; plus reference-independent metamorphic clauses
(fixed point, zero extension, junk suffix, input container independence).
"""
from __future__ import annotations

import itertools

import pydsdl

from .. import engine
from .. import histories as H
from ..gen import types as T
from ..gen import values as V
from ..ref import codec as C
from ..ref import layout as L
from . import c06

ID = "C07"
LEVEL = "exploration"
DESIGN_REF = "DESIGN.md 4/C07"
RULE = (
    "case = (composite type, with/without top-level delimiter header, byte string); byte strings: (a) every string over "
    "{00,01,02,7f,80,ff} up to the tier's length; (b) every prefix of every valid representation of the value alphabet; "
    "(c) every single-bit flip of those representations; (d) those followed by every junk suffix of length 1..2 over "
    "{00,01,ff}; plus every ordered pair of distinct same-named types with identical bit length sets (5 groups) decoded one after the other in one process. Non-trivial iff the byte string is neither empty nor all-zero; distinct by canonical hash of (type, header flag, bytes)"
)
ASSUMPTIONS = [
    "ref.codec.decode defines implicit zero extension / truncation and the four rejection classes (array length, union tag, delimiter header, UTF-8)",
    "capacities are <= 3 (255/256 family excluded here) so zero-extended decoding never allocates large arrays",
]

ALPHA = [0x00, 0x01, 0x02, 0x7F, 0x80, 0xFF]
JUNK = [bytes(x) for n in (1, 2) for x in itertools.product([0x00, 0x01, 0xFF], repeat=n)]


def types_for(tier):
    seen = set()

    def emit(d):
        k = T.key(d)
        if k not in seen:
            seen.add(k)
            return True
        return False

    for d in T.structs(T.F1, 2):
        for x in c06.with_delim(d, (0, 8)):
            if emit(x):
                yield x
    for d in T.unions(T.F1, 2):
        for x in c06.with_delim(d, (0,)):
            if emit(x):
                yield x
    # three fields: sub-byte leaf, anything, sub-byte leaf
    for a, b in itertools.product(c06.SUBBYTE[:3], repeat=2):
        for m in T.F1:
            d = ["struct", [a, m, b]]
            if emit(d):
                yield d
    for i, d in enumerate(c06.depth2(tier)):
        if tier != "quick" or i % 3 == 0:
            if emit(d):
                yield d
    # arrays of 8..40 elements of every element kind, also inside nested delimited objects whose header may end before them
    i8, u8 = ["int", 8], ["uint", 8, "s"]
    for e in (i8, u8, ["byte"], ["utf8"], ["float", 32, "s"], ["uint", 16, "s"], ["struct", [i8]], ["delim", ["struct", [u8]], 16]):
        for n in ((8, 16, 17) if tier == "quick" else (8, 9, 15, 16, 17, 32, 33, 40)):
            arr = ["varr", e, n] if e[0] == "utf8" else ["farr", e, n]
            for d in (["struct", [arr]], ["struct", [["delim", ["struct", [u8, arr]], L.tmax(["struct", [u8, arr]]) + 8], u8]], ["struct", [["bool"], ["varr", e, n]]]):
                if emit(d):
                    yield d
    for d in T.medium(tier, max_cap=17 if tier == "quick" else 65):  # more than three of everything (decoding cost grows with the capacity)
        if emit(d):
            yield d
    if tier != "quick":
        for i, d in enumerate(c06.depth3(tier)):
            if i % 5 == 0 and emit(d):
                yield d


# groups of DISTINCT structures with identical bit length sets: decoded under one shared name, one after the other in one process
ALIAS_GROUPS = [
    [["struct", [["uint", 8, "s"]]], ["struct", [["int", 8]]], ["struct", [["bool"], ["uint", 7, "s"]]], ["struct", [["uint", 7, "s"], ["bool"]]], ["struct", [["farr", ["bool"], 8]]], ["struct", [["uint", 4, "s"], ["int", 4]]]],
    [["struct", [["uint", 16, "s"]]], ["struct", [["int", 16]]], ["struct", [["float", 16, "s"]]], ["struct", [["uint", 8, "s"], ["int", 8]]], ["struct", [["farr", ["byte"], 2]]], ["struct", [["farr", ["uint", 8, "s"], 2]]]],
    [["struct", [["varr", ["uint", 8, "s"], 2]]], ["struct", [["varr", ["int", 8], 2]]], ["struct", [["varr", ["byte"], 2]]], ["struct", [["varr", ["utf8"], 2]]]],
    [["union", [["uint", 8, "s"], ["int", 8]]], ["union", [["int", 8], ["uint", 8, "s"]]], ["union", [["bool"], ["uint", 8, "s"]]]],
    [["delim", ["struct", [["uint", 8, "s"]]], 16], ["delim", ["struct", [["int", 8]]], 16], ["delim", ["struct", [["int", 8], ["bool"]]], 16], ["delim", ["union", [["bool"], ["int", 8]]], 16]],
]


def plan(tier):
    parts = 64 if tier == "quick" else 192
    return [{"part": p, "parts": parts} for p in range(parts)] + [{"alias_group": g} for g in range(len(ALIAS_GROUPS))] + H.plan_shards(['nested-revisions', 'delimited-revisions'], 2)


def cases(shard, tier):
    if shard.get("kind") == "call-histories":
        yield from H.cases_of(shard)
        return
    if "alias_group" in shard:
        g = ALIAS_GROUPS[shard["alias_group"]]
        for a, b in itertools.permutations(range(len(g)), 2):
            yield {"alias": [shard["alias_group"], a, b]}
        return
    for i, d in enumerate(types_for(tier)):
        if i % shard["parts"] == shard["part"]:
            yield {"desc": d, "maxlen": 3 if tier == "quick" else 4}


def byte_strings(desc, maxlen, with_header):
    seen = set()

    def emit(b, cls):
        if b not in seen:
            seen.add(b)
            return [(b, cls)]
        return []

    for n in range(0, maxlen + 1):
        for x in itertools.product(ALPHA, repeat=n):
            yield from emit(bytes(x), "alphabet")
    reps = []
    for v in V.values(desc, cap=10, small=True)[:12]:
        try:
            reps.append(C.encode(desc, v, with_header=with_header))
        except C.BadValue:
            pass
    reps = sorted(set(reps), key=lambda b: (len(b), b))
    for r in reps:
        for n in range(len(r) + 1):
            yield from emit(r[:n], "prefix")
    for r in reps:
        if len(r) <= 12:
            for bit in range(len(r) * 8):
                m = bytearray(r)
                m[bit >> 3] ^= 1 << (bit & 7)
                yield from emit(bytes(m), "bitflip")
    for r in reps:
        for j in JUNK:
            yield from emit(r + j, "junk")


OK_EXC = (pydsdl.Error, ValueError)  # SerDesError derives from pydsdl.Error; checked precisely below


def impl_decode(t, b, with_header):
    from pydsdl import _serdes

    try:
        return ("ok", pydsdl.deserialize(t, b, with_delimiter_header=with_header))
    except _serdes.SerDesError as ex:
        return ("serdes", type(ex).__name__)
    except ValueError as ex:
        return ("value", type(ex).__name__)
    except Exception as ex:  # noqa
        return ("other", "%s: %s" % (type(ex).__name__, str(ex)[:200]))


def _scribble(o) -> None:
    """Caller-side modification of a decoded object, in place and as deep as it goes."""
    if isinstance(o, dict):
        for k in list(o):
            _scribble(o[k])
            if isinstance(o[k], (int, float)) and not isinstance(o[k], bool):
                o[k] = 77
            elif isinstance(o[k], bool):
                o[k] = not o[k]
        o["scribbled_by_the_caller"] = 1
    elif isinstance(o, list):
        for i, x in enumerate(o):
            _scribble(x)
            if isinstance(x, (int, float)) and not isinstance(x, bool):
                o[i] = 77
        o.append("scribbled")


def check_alias(case, R: engine.Acc):
    g, a, b = case["alias"]
    da, db = ALIAS_GROUPS[g][a], ALIAS_GROUPS[g][b]
    ta, tb = T.build_named(da, "Alias", (1, 0)), T.build_named(db, "Alias", (1, 0))
    strings = [bytes(x) for n in range(0, 4) for x in itertools.product([0x00, 0x01, 0x02, 0x7F, 0x80, 0xFF], repeat=n)]
    for step, (desc, t) in enumerate([(da, ta), (db, tb), (da, ta)]):
        for bs in strings:
            R.case([case["alias"], step, bs.hex()], nontrivial=any(bs), sample=False)
            try:
                exp = ("ok", C.decode(desc, bs))
            except C.Reject as rj:
                exp = ("reject", rj.kind)
            got = impl_decode(t, bs, False)
            ok = (exp[0] == "reject" and got[0] in ("serdes", "value")) or (exp[0] == "ok" and got[0] == "ok" and C.same(got[1], exp[1]))
            if not ok:
                R.outcome("alias-mismatch")
                R.violation("history-dependent-decoding:" + desc[0], "deserialize(T, b) depends on T and b only, not on other same-named types decoded before in the process", {**case, "step": step, "bytes": bs.hex()}, observed=repr(got)[:300], expected=repr(exp)[:300])
                return
    R.outcome("alias-ok")


def check_case(case, R: engine.Acc):
    if case.get("kind") == "call-history":
        return H.check_history_codec(case["label"], R, 'decoding-depends-on-earlier-calls', 'deserialize(T, b) depends on T (as read in THIS call) and b only')
    if "alias" in case:
        return check_alias(case, R)
    desc = case["desc"]
    t = T.build(desc)
    T.spoil_accessors(t)  # the result depends on T and b only - not on what the caller did with the lists T's accessors returned
    modes = [False, True] if desc[0] == "delim" else [False]
    for with_header in modes:
        if "bytes" in case:
            todo = [(bytes.fromhex(case["bytes"]), "replay")] if case.get("with_header", False) == with_header else []
        else:
            todo = byte_strings(desc, case.get("maxlen", 3), with_header)
        for idx, (b, cls) in enumerate(todo):
            one = {"desc": desc, "with_header": with_header, "bytes": b.hex()}
            R.case([desc, with_header, b.hex()], nontrivial=any(b), sample=(cls == "bitflip" and idx % 97 == 0))
            V_ = lambda fp, clause, obs, exp: R.violation(fp, clause, one, observed=obs, expected=exp)  # noqa: E731
            try:
                exp = ("ok", C.decode(desc, b, with_header=with_header))
            except C.Reject as rj:
                exp = ("reject", rj.kind)
            got = impl_decode(t, b, with_header)
            if got[0] == "other":
                R.outcome("other-exception")
                V_("foreign-exception:" + got[1].split(":")[0], "deserialize raises only SerDesError / ValueError", got[1], exp[0])
                continue
            if exp[0] == "reject":
                R.outcome("rejected-" + exp[1])
                if got[0] == "ok":
                    V_("accepted-instead-of-reject-" + exp[1], "array length / union tag / delimiter header violations are rejected, not clamped", repr(got[1])[:300], exp[1])
                continue
            if got[0] != "ok":
                R.outcome("spurious-reject")
                V_("spurious-reject:" + got[1], "every byte string the Specification can decode is decoded (zero extension / truncation)", got[1], repr(exp[1])[:300])
                continue
            R.outcome("decoded-" + cls)
            if idx % 5 == 0 and C.same(got[1], exp[1]):
                # the returned object is the CALLER's: whatever the caller does to it must not show up in a later decoding
                _scribble(got[1])
                again = impl_decode(t, b, with_header)
                if again[0] != "ok" or not C.same(again[1], exp[1]):
                    V_("result-shares-state-with-earlier-result", "deserialize(T, b) depends on T and b only: modifying a previously returned object does not change later results", repr(again)[:300], repr(exp[1])[:300])
                    continue
                got = again
            if not C.same(got[1], exp[1]):
                V_("decoded-value-" + cls, "decoded object equals the Specification's decoding (zero extension, truncation, bounded sub-objects)", repr(got[1])[:400], repr(exp[1])[:400])
                continue
            # fixed point: the result is a valid object for T
            try:
                s = pydsdl.serialize(t, got[1], with_delimiter_header=with_header)
                again = pydsdl.deserialize(t, s, with_delimiter_header=with_header)
                if not C.same(again, got[1]):
                    V_("not-a-fixed-point", "serializing and deserializing the result again is a fixed point", repr(again)[:300], repr(got[1])[:300])
            except Exception as ex:  # noqa
                V_("result-not-serializable:" + type(ex).__name__, "the returned object is valid for T", repr(ex)[:300], repr(got[1])[:300])
            # zero extension, reference-independent: b and b + zeros decode alike unless a header verdict changes
            if idx % 3 == 0:
                for k in (1, 9):
                    g2 = impl_decode(t, b + bytes(k), with_header)
                    if g2[0] == "ok":
                        if not C.same(g2[1], got[1]):
                            V_("zero-extension-changes-result", "b and b followed by zero bytes decode alike", repr(g2[1])[:300], repr(got[1])[:300])
                    elif g2[0] == "other":
                        V_("foreign-exception:" + g2[1].split(":")[0], "deserialize raises only SerDesError / ValueError", g2[1], "ok")
                # container independence / no dependence on data outside b
                big = b"\xff\xa5" + b + b"\xff\x5a\xff"
                mv = memoryview(big)[2 : 2 + len(b)]
                for alt in (bytearray(b), mv):
                    g3 = impl_decode(t, alt, with_header)
                    if g3[0] != "ok" or not C.same(g3[1], got[1]):
                        V_("depends-on-container", "bytes, bytearray and a memoryview slice of a larger buffer give identical results", repr(g3)[:300], repr(got[1])[:300])
                R.counters["metamorphic"] += 1


def worker_init():
    assert C.selfcheck() > 1000


def finish(tier, M):
    need = ["decoded-alphabet", "decoded-prefix", "decoded-bitflip", "decoded-junk", "rejected-array-length", "rejected-union-tag", "rejected-delimiter-header", "rejected-utf8"]
    miss = [n for n in need if not M.hist.get(n)]
    if miss:
        raise engine.Vacuous("outcome classes not seen: %s" % miss)
    return {"bounds": "alphabet strings up to %d bytes; prefixes/bit flips/junk of <=12 valid representations per type" % (3 if tier == "quick" else 4)}
