"""
C14 - Delimited (appendable) types evolve without breaking containers or the wire.

All pairs (D, D') of delimited types whose field lists are prefix-related and whose extents are equal, nested at every
kind of position in a container; container layout must be identical, and data written with one revision must be read
with the other as the Specification demands - in both directions, for every value of the alphabet.
"""
from __future__ import annotations

import itertools

import pydsdl
from pydsdl import BitLengthSet

from .. import engine
from .. import histories as H
from . import c06
from ..gen import types as T
from ..gen import values as V
from ..ref import codec as C
from ..ref import layout as L

ID = "C14"
LEVEL = "exploration"
DESIGN_REF = "DESIGN.md 4/C14"
RULE = (
    "case = (D, D', extent, container, value, direction): field lists over {uint8, uint3, uint16[<=2], bool} of length <=3 "
    "(thorough: plus int16 and a nested sealed struct, length <=3), lists of length <=2 also over byte/utf8 arrays and members that are delimited themselves, every pair where one list is a proper prefix of the other, "
    "common extent in {min, min+16}; containers: D itself (with header), middle field between sub-byte fields, element of "
    "D[2] and D[<=2], union variant, field of another delimited type; every value of V(container). Non-trivial iff D != D'; "
    "distinct by canonical hash of the whole tuple"
)
ASSUMPTIONS = [
    "expected reader value = writer value with common leading fields kept, reader-only fields zero/empty, writer-only fields dropped (and must agree with ref.codec.decode)",
]

A4 = [["uint", 8, "s"], ["uint", 3, "s"], ["varr", ["uint", 16, "s"], 2], ["bool"]]
A6 = A4 + [["int", 16], ["struct", [["bool"], ["uint", 8, "s"]]]]
A8 = A4 + [["farr", ["byte"], 2], ["varr", ["utf8"], 2], ["farr", ["uint", 8, "s"], 2], ["varr", ["byte"], 3],
           ["float", 32, "s"], ["float", 64, "t"], ["float", 16, "s"]]  # byte / text arrays and floats (bulk / byte-wise read paths)
_E = ["delim", ["struct", [["uint", 16, "s"]]], 64]
AD = [_E, ["struct", [_E]], ["farr", _E, 2], ["union", [_E, ["bool"]]]]  # appended members that are delimited themselves (their headers are zero-extended too)
NAMINGS = ["distinct", "same-name-next-minor", "same-name-same-version"]


def pairs(tier):
    alpha = A4 if tier == "quick" else A6
    seen = set()
    for n, al in [(1, A8 + AD), (2, A8 + AD[:2]), (3, alpha)] + ([(3, A8)] if tier != "quick" else []):
        for long in itertools.product(al, repeat=n):
            if T.key(list(long)) in seen:
                continue
            seen.add(T.key(list(long)))
            for m in range(0, n):
                short = long[:m]
                base = -(-L.tmax(["struct", list(long)]) // 8) * 8
                for ext in (base, base + 16):
                    yield ["delim", ["struct", list(short)], ext], ["delim", ["struct", list(long)], ext]


CONTAINERS = ["self", "middle", "farr", "varr", "variant", "in-delimited", "in-delimited-array"]
BIG_CONTAINERS = ["middle", "farr9", "varr17"]


def big_pairs():
    """Revisions whose payloads / appended members are beyond a kilobyte, and short ones nested in arrays of 9 / 17 elements."""
    u8 = ["uint", 8, "s"]
    heads = [[["farr", u8, 1100]], [u8], [["farr", ["byte"], 1030], ["bool"]]]
    tails = [["farr", ["byte"], 16], ["farr", u8, 1100], ["varr", ["utf8"], 1200], ["farr", ["byte"], 1025], ["uint", 16, "s"]]
    for h in heads:
        for t in tails:
            long = h + [t]
            base = -(-L.tmax(["struct", long]) // 8) * 8
            yield ["delim", ["struct", h], base + 16], ["delim", ["struct", long], base + 16]


def container(kind, X):
    if kind == "self":
        return X
    if kind == "middle":
        return ["struct", [["uint", 3, "s"], X, ["bool"], ["uint", 8, "s"]]]
    if kind == "farr9":
        return ["struct", [["bool"], ["farr", X, 9], ["uint", 8, "s"]]]
    if kind == "varr17":
        return ["struct", [["uint", 3, "s"], ["varr", X, 17], ["uint", 8, "s"]]]
    if kind == "farr":
        return ["struct", [["bool"], ["farr", X, 2], ["uint", 8, "s"]]]
    if kind == "varr":
        return ["struct", [["bool"], ["varr", X, 2], ["uint", 3, "s"]]]
    if kind == "variant":
        return ["struct", [["union", [["bool"], X]], ["uint", 8, "s"]]]
    if kind == "in-delimited":
        inner = ["struct", [["uint", 3, "s"], X, ["uint", 8, "s"]]]
        return ["delim", inner, -(-L.tmax(inner) // 8) * 8 + 8]
    if kind == "in-delimited-array":
        # D inside a delimited type W, W an array element at a non-zero offset of a sealed structure
        inner = ["struct", [["uint", 3, "s"], X, ["uint", 8, "s"]]]
        W = ["delim", inner, -(-L.tmax(inner) // 8) * 8 + 8]
        return ["struct", [["uint", 8, "s"], ["uint", 16, "s"], ["farr", W, 2], ["bool"]]]
    raise ValueError(kind)


def convert(wd, rd, v):
    """Expected reader-side value for writer-side canonical value v."""
    k = wd[0]
    if k == "delim" and rd[0] == "delim" and wd[1][0] == "struct" and rd[1][0] == "struct" and len(wd[1][1]) != len(rd[1][1]):
        wf, rf = wd[1][1], rd[1][1]
        m = min(len(wf), len(rf))
        assert wf[:m] == rf[:m]
        out = {}
        for i, f in enumerate(rf):
            if f[0] == "void":
                continue
            n = "f%d" % i
            out[n] = v[n] if i < len(wf) else C.default(f)
        return out
    if k == "delim":
        return convert(wd[1], rd[1], v)
    if k == "struct":
        return {("f%d" % i): convert(f, rd[1][i], v["f%d" % i]) for i, f in enumerate(wd[1]) if f[0] != "void"}
    if k == "union":
        (n, x), = v.items()
        i = int(n[1:])
        return {n: convert(wd[1][i], rd[1][i], x)}
    if k in ("farr", "varr") and isinstance(v, list):
        return [convert(wd[1], rd[1], x) for x in v]
    return v


def layout_obs(t: pydsdl.CompositeType, expand: bool = True):
    b = t.bit_length_set
    d = {"min": b.min, "max": b.max, "extent": t.extent, "align": t.alignment_requirement}
    for m in (8, 16, 32, 64):
        d["%%%d" % m] = sorted(b % m)
    if expand and b.max - b.min <= 4096:
        d["set"] = sorted(b)
    offs = []
    for base in ([0], [4, 8]):
        for f, o in t.iterate_fields_with_offsets(BitLengthSet(base)):
            offs.append([f.name, o.min, o.max, sorted(o % 8), sorted(o % 64), sorted(o) if expand and o.max - o.min <= 2048 else None])
    d["offsets"] = offs
    return d


# One container that nests SEVERAL revisions of D at once (read from DSDL text): every field keeps the revision its reference names,
# also when the version numbers read alike once their digits are run together (1.10 / 11.0, 1.11 / 11.1, 2.55 / 25.5)
VERSION_PAIRS = [[[1, 10], [11, 0]], [[11, 0], [1, 10]], [[1, 11], [11, 1]], [[2, 55], [25, 5]], [[1, 0], [10, 0]], [[1, 0], [1, 1]], [[1, 1], [1, 0]], [[0, 1], [0, 10]], [[12, 3], [1, 23]]]


def check_two_revisions(case, R: engine.Acc):
    from .. import api

    (a1, a2), (b1, b2) = case["versions"]
    old_first = case["older_first"]
    short, long_ = "uint8 a\n@extent 64\n", "uint8 a\nuint16 b\n@extent 64\n"
    va, vb = ("D.%d.%d" % (a1, a2)), ("D.%d.%d" % (b1, b2))
    files = {"vns/%s.dsdl" % va: short if old_first else long_, "vns/%s.dsdl" % vb: long_ if old_first else short,
             "vns/C.1.0.dsdl": "%s first\n%s second\n%s[<=2] more\n%s[2] pair\n@sealed\n" % (va, vb, vb, va)}
    R.case(["two-revisions", case["versions"], old_first], nontrivial=True, sample=False)
    o = api.read_namespace_tree(files, "vns", raw=True)
    if o.error is not None:
        R.violation("two-revisions-rejected", "harness: the definitions are valid", case, observed=o.error)
        return
    c = [t for t in o.raw_types if t.short_name == "C"][0]
    fa = ["a"] if old_first else ["a", "b"]
    fb = ["a", "b"] if old_first else ["a"]
    got = [[f.name for f in (fld.data_type.element_type if isinstance(fld.data_type, pydsdl.ArrayType) else fld.data_type).fields] for fld in c.fields]
    want = [fa, fb, fb, fa]
    vers = [(fld.data_type.element_type if isinstance(fld.data_type, pydsdl.ArrayType) else fld.data_type).version for fld in c.fields]
    gotv = ["%d.%d" % (x.major, x.minor) for x in vers]
    wantv = ["%d.%d" % (a1, a2), "%d.%d" % (b1, b2), "%d.%d" % (b1, b2), "%d.%d" % (a1, a2)]
    if got != want or gotv != wantv:
        R.violation("nested-revision-confused", "every nested object is the revision its reference names: data written with one revision is read with that revision's fields", case, observed=[got, gotv], expected=[want, wantv])
        return
    # the wire: a value with every field of every revision set survives the round trip through the container
    mk = lambda names, k: {n: k + i for i, n in enumerate(names)}  # noqa: E731
    v = {"first": mk(fa, 1), "second": mk(fb, 10), "more": [mk(fb, 20), mk(fb, 30)], "pair": [mk(fa, 40), mk(fa, 50)]}
    try:
        back = pydsdl.deserialize(c, pydsdl.serialize(c, v))
    except Exception as ex:  # noqa
        R.violation("nested-revision-codec-raised:" + type(ex).__name__, "data written with one revision is read correctly", case, observed=repr(ex)[:200], expected=repr(v))
        return
    if back != v:
        R.violation("nested-revision-roundtrip", "every field after the nested object - including further array elements - is read correctly", case, observed=repr(back), expected=repr(v))
    else:
        R.outcome("two-revisions-ok")


def plan(tier):
    return [{"part": p, "parts": 48} for p in range(48)] + [{"kind": "two-revisions"}] + [{"kind": "big", "part": p, "parts": 8} for p in range(8)] + H.plan_shards(['delimited-revisions', 'nested-revisions'], 2)


def cases(shard, tier):
    if shard.get("kind") == "call-histories":
        yield from H.cases_of(shard)
        return
    if shard.get("kind") == "big":
        i = 0
        for D1, D2 in big_pairs():
            for kind in BIG_CONTAINERS[:1]:
                if i % shard["parts"] == shard["part"]:
                    yield {"D": D1, "D2": D2, "container": kind, "naming": "distinct"}
                i += 1
        for j, (D1, D2) in enumerate(pairs("quick")):
            if j % 7 == 0:
                for kind in BIG_CONTAINERS[1:]:
                    for naming in ("distinct", "same-name-same-version"):
                        if i % shard["parts"] == shard["part"]:
                            yield {"D": D1, "D2": D2, "container": kind, "naming": naming}
                        i += 1
        return
    if shard.get("kind") == "two-revisions":
        for vp in VERSION_PAIRS:
            for older_first in (True, False):
                yield {"kind": "two-revisions", "versions": vp, "older_first": older_first}
        return
    for i, (D1, D2) in enumerate(pairs(tier)):
        if i % shard["parts"] == shard["part"]:
            for kind in CONTAINERS:
                for naming in NAMINGS:
                    if naming != "distinct" and i % 3 != 0 and tier == "quick":
                        continue  # quick tier: the same-name namings on every third pair
                    yield {"D": D1, "D2": D2, "container": kind, "naming": naming}


def check_case(case, R: engine.Acc):
    if case.get("kind") == "two-revisions":
        return check_two_revisions(case, R)
    if case.get("kind") == "call-history":
        return H.check_history_codec(case["label"], R, 'revision-codec-depends-on-earlier-calls', 'data is read with the revision of the nested type that THIS call read')
    D1, D2, kind = case["D"], case["D2"], case["container"]
    c1, c2 = container(kind, D1), container(kind, D2)
    naming = case.get("naming", "distinct")
    # revisions of one type usually share its name: built as distinct names, as D.1.0 / D.1.1, and as two trees' D.1.0
    T.NAME_OVERRIDES.clear()
    if naming != "distinct":
        T.NAME_OVERRIDES[T.key(D1)] = ("Rev", (1, 0))
        T.NAME_OVERRIDES[T.key(D2)] = ("Rev", (1, 1) if naming == "same-name-next-minor" else (1, 0))
    try:
        t1, t2 = T.build(c1, cache={}), T.build(c2, cache={})
        T.spoil_accessors(t1)
        T.spoil_accessors(t2)
    finally:
        T.NAME_OVERRIDES.clear()
    # (a) container layout is identical
    small = kind not in BIG_CONTAINERS[1:]  # the implementation expands arrays of 9+ multi-valued elements combinatorially
    l1, l2 = layout_obs(t1, small), layout_obs(t2, small)
    R.case([D1, D2, kind, naming, "layout"], nontrivial=True, sample=False)
    if kind != "self":
        # names of the nested types differ (hash of the description); offsets list carries field names of the container only
        if l1 != l2:
            bad = [k for k in l1 if l1[k] != l2[k]]
            R.violation("container-layout-changes:" + bad[0], "bit_length_set, extent and offsets of following fields are unchanged by the revision", case, observed={k: l2[k] for k in bad[:3]}, expected={k: l1[k] for k in bad[:3]})
        R.outcome("layout-compared")
    else:
        for k in ("min", "max", "extent", "align", "%8", "%64", "set"):
            if l1.get(k) != l2.get(k):
                R.violation("delimited-layout-depends-on-fields", "a delimited type's bit_length_set depends only on its extent", case, observed=l2.get(k), expected=l1.get(k))
                break
    # (b) wire compatibility, both directions
    header_modes = [True] if kind == "self" else ([False, True] if c1[0] == "delim" else [False])
    for with_header, (direction, (wd, rd, wt, rt)) in itertools.product(header_modes, (("old->new", (c1, c2, t1, t2)), ("new->old", (c2, c1, t2, t1)))):
        vals = V.values(wd, cap=24)
        if "value_index" in case:
            vals = [(i, v) for i, v in enumerate(vals) if i == case["value_index"] and direction == case.get("direction") and with_header == case.get("with_header", with_header)]
        else:
            vals = list(enumerate(vals))
        for vi, v in vals:
            one = {**case, "direction": direction, "with_header": with_header, "value_index": vi, "value": repr(v)[:200]}
            try:
                cv = C.canon(wd, v)
                wire_ref = C.encode(wd, v, with_header=with_header)
            except C.BadValue:
                continue
            R.case([D1, D2, kind, naming, with_header, direction, repr(v)], nontrivial=True, sample=(vi == 5 and kind == "varr"))
            if vi % 2 == 0:
                # a failed write first (one leaf of the value at a time cannot be encoded: the failure comes after any part of the nested
                # delimited object was written); what it leaves behind must not reach the next write
                for pv in c06.poisoned_variants(v):
                    try:
                        pydsdl.serialize(wt, pv, with_delimiter_header=with_header)
                    except Exception:  # noqa
                        R.counters["failed_writes_before_valid_ones"] += 1
                    if pydsdl.serialize(wt, v, with_delimiter_header=with_header) != wire_ref:
                        R.violation("writer-bytes-after-a-failed-write", "writer produces the Specification's bytes, whatever call failed before", {**one, "failed": repr(pv)[:200]}, expected=wire_ref.hex())
                        break
            wire = pydsdl.serialize(wt, v, with_delimiter_header=with_header)
            if wire != wire_ref:
                R.violation("writer-bytes", "writer produces the Specification's bytes (see C06)", one, observed=wire.hex(), expected=wire_ref.hex())
                continue
            exp = convert(wd, rd, cv)
            try:
                exp_ref = C.decode(rd, wire, with_header=with_header)
            except C.Reject as rj:
                R.violation("reference-rejects-evolution", "harness self-check: the reference decoder reads the other revision", one, observed=rj.kind)
                continue
            if not C.same(exp, exp_ref):
                R.violation("reference-formulations-disagree", "harness self-check: convert() == ref.codec.decode", one, observed=repr(exp_ref)[:300], expected=repr(exp)[:300])
                continue
            try:
                got = pydsdl.deserialize(rt, wire, with_delimiter_header=with_header)
            except Exception as ex:  # noqa
                R.outcome("reader-raised")
                R.violation("reader-raised-%s:%s" % (direction, type(ex).__name__), "data written with one revision is readable with the other", one, observed=repr(ex)[:300], expected=repr(exp)[:300])
                continue
            if C.same(got, exp):
                R.outcome("compatible-" + direction)
            else:
                R.outcome("incompatible")
                R.violation("evolution-%s-%s" % (direction, kind), "common fields keep values, unknown-to-writer read zero/empty, unknown-to-reader skipped, following fields intact", one, observed=repr(got)[:400], expected=repr(exp)[:400])


def finish(tier, M):
    if not M.hist.get("compatible-old->new") or not M.hist.get("compatible-new->old") or not M.hist.get("layout-compared"):
        raise engine.Vacuous(repr(dict(M.hist)))
    return {"bounds": "field lists <=3 over %d field types; 2 extents; 6 container kinds; value alphabet cap 24" % (4 if tier == "quick" else 6)}
